#!/bin/sh
# Apply every seeded change (seeded/<id>/patch.diff) to a scratch worktree of /repo, run the quick
# check of the property it breaks against that worktree, and print one line per seed.
# (each check stops at its first confirmed violation). Every line must say rc=1 (a VIOLATION confirmed by replay). Usage: tools/regress_seeds.sh [ids...]
cd "$(dirname "$0")/.." || exit 2
wt=$(mktemp -d /tmp/seedreg.XXXXXX)
git -C /repo worktree add -q --detach "$wt" HEAD || exit 2
trap 'git -C /repo worktree remove --force "$wt"' EXIT
ids="$*"
[ -z "$ids" ] && ids=$(ls seeded)
bad=0
for id in $ids; do
  d=seeded/$id
  pid=$(python3 -c "import json;print(json.load(open('$d/meta.json'))['breaks_property'])")
  if ! git -C "$wt" apply "$PWD/$d/patch.diff" 2>/dev/null; then echo "$id $pid NOAPPLY"; bad=1; continue; fi
  s=$(date +%s)
  out=$(VERIF_REPO="$wt" VERIF_NO_EVIDENCE=1 VERIF_NO_TRACEVAL=1 VERIF_STOPFIRST=1 ./check "$pid" quick 2>/dev/null); rc=$?
  [ $rc -ne 1 ] && bad=1
  echo "$id $pid rc=$rc $(( $(date +%s)-s ))s $(echo "$out" | grep -m1 'signature\|MACHINERY\|DISCREP' | cut -c1-200)"
  git -C "$wt" checkout -q -- .
done
exit $bad
