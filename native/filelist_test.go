package gcsemu

// Native demonstration of the C11 finding on the file-backed store: the directory walk visits
// "a/b" before "a.t" although "a.t" < "a/b" bytewise, so a paginated listing is out of order and
// loses objects (the page-token cursor skips everything that sorts at or below the last name).
// Real file system (a temporary directory), real JSON, real page tokens.

import (
	"context"
	"encoding/json"
	"net/http/httptest"
	"net/url"
	"sort"
	"testing"

	"google.golang.org/api/storage/v1"
)

func TestVerifFileStoreListing(t *testing.T) {
	g := NewGcsEmu(Options{Store: NewFileStore(t.TempDir())})
	names := []string{"a.t", "a/b", "a/b.c"}
	for _, n := range names {
		if _, err := g.finishUpload(context.Background(), dontNeedUrls, &storage.Object{Bucket: "b", Name: n}, []byte("c"), "b", emptyConds); err != nil {
			t.Fatal(err)
		}
	}
	for _, maxResults := range []string{"1", "2", "3", "1000"} {
		var got []string
		token := ""
		for page := 0; page < 10; page++ {
			q := url.Values{"maxResults": {maxResults}, "prefix": {"a"}}
			if token != "" {
				q["pageToken"] = []string{token}
			}
			w := httptest.NewRecorder()
			g.handleGcsListBucket(context.Background(), dontNeedUrls, w, q, "b")
			if w.Code != 200 {
				t.Fatalf("list: %d %s", w.Code, w.Body.String())
			}
			var res storage.Objects
			if err := json.Unmarshal(w.Body.Bytes(), &res); err != nil {
				t.Fatal(err)
			}
			for _, it := range res.Items {
				got = append(got, it.Name)
			}
			token = res.NextPageToken
			if token == "" {
				break
			}
		}
		if len(got) != len(names) {
			t.Errorf("maxResults=%s: listed %q, want every one of %q exactly once", maxResults, got, names)
		} else if !sort.StringsAreSorted(got) {
			t.Errorf("maxResults=%s: listed %q, not in ascending bytewise order", maxResults, got)
		}
	}
}
