//go:build verif

package bttest

// Native forced-schedule replay of the C16 finding "GC pass writes back a
// stale snapshot of a row written during its unlocked window". The verifYield
// hook blocks the pass inside the window while a MutateRow is acknowledged.

import (
	"context"
	"fmt"
	"testing"

	"cloud.google.com/go/bigtable"
	btapb "cloud.google.com/go/bigtable/admin/apiv2/adminpb"
	btpb "cloud.google.com/go/bigtable/apiv2/bigtablepb"
)

func TestVerifGCStale(t *testing.T) {
	s := &server{tables: map[string]*table{}, storage: LeveldbMemStorage{}, clock: func() bigtable.Timestamp { return 5000 }, done: make(chan struct{})}
	ctx := context.Background()
	_, err := s.CreateTable(ctx, &btapb.CreateTableRequest{Parent: "p", TableId: "t", Table: &btapb.Table{
		ColumnFamilies: map[string]*btapb.ColumnFamily{"f": {GcRule: &btapb.GcRule{Rule: &btapb.GcRule_MaxNumVersions{MaxNumVersions: 1}}}}}})
	if err != nil {
		t.Fatal(err)
	}
	tbl := s.tables["p/tables/t"]
	two := func(key string) *btpb.Row {
		return &btpb.Row{Key: []byte(key), Families: []*btpb.Family{{Name: "f", Columns: []*btpb.Column{{Qualifier: []byte("q"),
			Cells: []*btpb.Cell{{TimestampMicros: 2000, Value: []byte("new")}, {TimestampMicros: 1000, Value: []byte("old")}}}}}}}
	}
	for i := 0; i < 100; i++ {
		tbl.rows.ReplaceOrInsert(two(fmt.Sprintf("a%02d", i)))
	}
	tbl.rows.ReplaceOrInsert(two("s"))
	verifYieldFn = func(point string) {
		if point != "gc.unlocked" {
			return
		}
		// the pass has released the table lock: a client write is acknowledged now
		_, werr := s.MutateRow(ctx, &btpb.MutateRowRequest{TableName: "p/tables/t", RowKey: []byte("s"), Mutations: []*btpb.Mutation{
			{Mutation: &btpb.Mutation_SetCell_{SetCell: &btpb.Mutation_SetCell{FamilyName: "f", ColumnQualifier: []byte("w"), TimestampMicros: 3000, Value: []byte("W")}}}}})
		if werr != nil {
			t.Fatal(werr)
		}
	}
	defer func() { verifYieldFn = nil }()
	tbl.gc(5000, s.done, true)
	r := tbl.rows.Get([]byte("s"))
	for _, f := range r.Families {
		for _, c := range f.Columns {
			if string(c.Qualifier) == "w" {
				fmt.Println("VERIF-NATIVE acknowledged write present")
				return
			}
		}
	}
	fmt.Println("VERIF-NATIVE acknowledged write LOST")
	t.Fatalf("acknowledged write to row s was reverted by the GC pass")
}
