package bttest

// Native replay of the C08 finding "a deleted table is back after a restart":
// real LeveldbDiskStorage on a temporary directory, real goleveldb.

import (
	"context"
	"testing"

	btapb "cloud.google.com/go/bigtable/admin/apiv2/adminpb"
)

func TestVerifDeleteTablePersisted(t *testing.T) {
	dir := t.TempDir()
	ctx := context.Background()
	srv, err := NewServerWithOptions("localhost:0", Options{Storage: LeveldbDiskStorage{Root: dir}})
	if err != nil {
		t.Fatal(err)
	}
	if _, err := srv.s.CreateTable(ctx, &btapb.CreateTableRequest{Parent: "projects/p/instances/i", TableId: "t",
		Table: &btapb.Table{ColumnFamilies: map[string]*btapb.ColumnFamily{"f": {}}}}); err != nil {
		t.Fatal(err)
	}
	if _, err := srv.s.DeleteTable(ctx, &btapb.DeleteTableRequest{Name: "projects/p/instances/i/tables/t"}); err != nil {
		t.Fatal(err)
	}
	srv.Close()
	srv2, err := NewServerWithOptions("localhost:0", Options{Storage: LeveldbDiskStorage{Root: dir}})
	if err != nil {
		t.Fatal(err)
	}
	defer srv2.Close()
	res, err := srv2.s.ListTables(ctx, &btapb.ListTablesRequest{Parent: "projects/p/instances/i"})
	if err != nil {
		t.Fatal(err)
	}
	if len(res.Tables) != 0 {
		t.Fatalf("deleted table reappeared after restart: %v", res.Tables)
	}
}
