package bttest

// Native replay of the C08 known finding: DropRowRange by prefix deletes the
// matching rows one by one; a process kill between two deletes leaves the
// request half applied. The kill is simulated by a Rows wrapper that panics
// after the first Delete; the database is then closed and reopened.

import (
	"context"
	"testing"

	btapb "cloud.google.com/go/bigtable/admin/apiv2/adminpb"
	btpb "cloud.google.com/go/bigtable/apiv2/bigtablepb"
)

type vCrashRows struct {
	Rows
	deletes int
}

func (r *vCrashRows) Delete(key keyType) {
	if r.deletes == 1 {
		panic("simulated kill")
	}
	r.deletes++
	r.Rows.Delete(key)
}

func TestVerifDropRowRangeCrash(t *testing.T) {
	dir := t.TempDir()
	ctx := context.Background()
	st := LeveldbDiskStorage{Root: dir}
	s := &server{tables: map[string]*table{}, storage: st, clock: nil, done: make(chan struct{})}
	name := "projects/p/instances/i/tables/t"
	if _, err := s.CreateTable(ctx, &btapb.CreateTableRequest{Parent: "projects/p/instances/i", TableId: "t",
		Table: &btapb.Table{ColumnFamilies: map[string]*btapb.ColumnFamily{"f": {}}}}); err != nil {
		t.Fatal(err)
	}
	tbl := s.tables[name]
	for _, k := range []string{"a", "b"} {
		tbl.rows.ReplaceOrInsert(&btpb.Row{Key: []byte(k), Families: []*btpb.Family{{Name: "f", Columns: []*btpb.Column{{Qualifier: []byte("q"),
			Cells: []*btpb.Cell{{TimestampMicros: 1000, Value: []byte("v")}}}}}}})
	}
	real := tbl.rows
	tbl.rows = &vCrashRows{Rows: real}
	func() {
		defer func() { recover() }()
		s.DropRowRange(ctx, &btapb.DropRowRangeRequest{Name: name, Target: &btapb.DropRowRangeRequest_RowKeyPrefix{RowKeyPrefix: []byte{}}})
	}()
	real.Close()
	// restart on the same directory
	var left int
	for _, td := range st.GetTables() {
		rows := st.Open(td)
		rows.Ascend(func(*btpb.Row) bool { left++; return true })
		rows.Close()
	}
	if left != 0 && left != 2 {
		t.Fatalf("in-flight DropRowRange half applied: %d of 2 rows left after restart", left)
	}
}
