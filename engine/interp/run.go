package interp

// Path exploration by deterministic re-execution with a decision trail.

import (
	"encoding/json"
	"fmt"
	"go/token"
	"os"
	"runtime"
	"runtime/debug"
	"sort"
	"strings"
	"sync"
	"sync/atomic"
	"time"

	"golang.org/x/tools/go/ssa"
)

// engine-internal panics (never visible to the target program)
type pathAbort struct{ why string }    // path ends quietly (infeasible assume, violation recorded, ...)
type inconclusive struct{ why string } // path ends without a verdict (budget, opaque branch, ...)
type engineError struct{ why string }  // machinery failure

func isEnginePanic(p interface{}) bool {
	switch p.(type) {
	case pathAbort, inconclusive, engineError:
		return true
	}
	return false
}

// Decision is one entry of the trail.
type Decision struct {
	Kind   string   `json:"k"`
	N      int      `json:"n"`           // number of options when discovered (for replay sanity)
	Chosen int      `json:"c"`           // option index
	Vals   []uint64 `json:"v,omitempty"` // concretise: candidate values (option i = Vals[i])
	alts   []int    // untried feasible options
}

// Violation is a failed assertion / panic / deadlock / race on one path.
type Violation struct {
	Harness string            `json:"harness"`
	Kind    string            `json:"kind"`  // assert | panic | deadlock | race | fatal
	Label   string            `json:"label"` // assertion label or panic site
	Tags    []string          `json:"tags,omitempty"`
	Msg     string            `json:"msg,omitempty"`
	Model   map[string]uint64 `json:"model,omitempty"`
	Inputs  []InputRec        `json:"inputs,omitempty"` // nondet values in call order (for native replay)
	Trail   []Decision        `json:"trail,omitempty"`
	Sched   []int             `json:"sched,omitempty"`
}

// InputRec is one vNondet*/vChoice call on the path, with its value under the model.
type InputRec struct {
	Name string `json:"name"`
	Bits int    `json:"bits"`
	Val  uint64 `json:"val"`
	term *Term
}

// Sig is the signature used to match known findings.
func (v *Violation) Sig() string {
	return v.Harness + "/" + v.Kind + "/" + v.Label + "/" + strings.Join(v.Tags, ",")
}

// Run is the state of one path execution.
type Run struct {
	w          *worker
	trail      []Decision
	pos        int
	fixed      int     // prefix length owned by the task (never backtracked)
	pc         []*Term // path condition conjuncts
	pcIDs      []int
	inputs     []InputRec
	nseq       map[string]int
	tags       []string
	steps      int
	viols      []*Violation
	obs        []ObsRec
	reached    map[string]bool
	protoTab   []value
	clock      int64
	clockSym   *Term
	clockMode  int
	aborted    string
	objs       map[string]value // per-path engine objects (stub state)
	counter    int
	panicSite  string
	ufCalls    map[string][]ufCall
	clockFixed value
	model      Model
	mvalid     map[string]bool
	pcVars     map[string]bool
	panicFn    string
}

// ObsRec is a vObserve call.
type ObsRec struct {
	Name string
	Term *Term
}

// Config controls one exploration.
type Config struct {
	Harness       string
	Workers       int
	MaxSteps      int // per path instruction budget
	MaxDecisions  int // per path decision budget
	MaxPaths      int // global cap (0 = none); hitting it makes the run incomplete
	MaxPreempt    int
	MaxConcretise int
	TimeLimit     time.Duration
	Solvers       []string
	CrossCheck    bool
	StopAtFirst   bool
	Trace         bool
	SampleEvery   int
	MaxSamples    int // passing paths kept for native trace validation (default 8); spread over the whole run
	Tier          string
}

// Result of exploring one harness.
type Result struct {
	Harness        string
	Paths          int64
	Inconclusive   map[string]int
	Violations     []*Violation
	Obligations    int64
	Discharged     int64
	UnknownAsserts int64
	Decisions      int64
	Nodes          int64
	Steps          int64
	Solver         *SolverStats
	Complete       bool
	Reached        map[string]bool
	Funcs          map[string][2]int // function -> [blocks covered, blocks total]
	Samples        []map[string]interface{}
	SampleTraces   [][]InputRec
	Disagreements  []string
	Wall           float64
	EngineErrors   []string
	Schedules      int64
	SleepPruned    int64
	Races          int64
	MaxDepth       int
	Bounds         map[string]int
}

type task struct {
	prefix []Decision
}

type explorer struct {
	prog         *ssa.Program
	fn           *ssa.Function
	cfg          Config
	mu           sync.Mutex
	cond         *sync.Cond
	queue        []task
	idle         int
	done         bool
	res          *Result
	paths        int64
	stop         int32
	sampleStride int64
	t0           time.Time
	covMu        sync.Mutex
	cov          map[*ssa.BasicBlock]bool
}

type worker struct {
	ex          *explorer
	i           *interpreter
	pf          *portfolio
	run         *Run
	id          int
	cov         map[*ssa.BasicBlock]bool
	fixedInputs map[string]uint64 // replay mode: concrete value per input name
}

// Explore explores all paths of harness function fn.
func Explore(prog *ssa.Program, fn *ssa.Function, cfg Config) *Result {
	if cfg.Workers <= 0 {
		cfg.Workers = runtime.NumCPU()
	}
	if cfg.MaxSteps <= 0 {
		cfg.MaxSteps = 20_000_000
	}
	if cfg.MaxDecisions <= 0 {
		cfg.MaxDecisions = 5000
	}
	if cfg.MaxConcretise <= 0 {
		cfg.MaxConcretise = 64
	}
	if cfg.MaxPreempt <= 0 {
		cfg.MaxPreempt = 1 << 30
	}
	if len(cfg.Solvers) == 0 {
		cfg.Solvers = []string{"z3-fast", "cvc5-int", "z3", "z3-new"}
	}
	ex := &explorer{prog: prog, fn: fn, cfg: cfg, t0: time.Now(), cov: map[*ssa.BasicBlock]bool{}}
	ex.cond = sync.NewCond(&ex.mu)
	ex.res = &Result{Harness: cfg.Harness, Inconclusive: map[string]int{}, Solver: newSolverStats(),
		Reached: map[string]bool{}, Complete: true}
	ex.queue = []task{{}}
	var wg sync.WaitGroup
	for k := 0; k < cfg.Workers; k++ {
		wg.Add(1)
		go func(id int) {
			defer wg.Done()
			w := &worker{ex: ex, id: id, cov: map[*ssa.BasicBlock]bool{}}
			w.loop()
		}(k)
	}
	wg.Wait()
	ex.res.Wall = time.Since(ex.t0).Seconds()
	ex.res.Paths = ex.paths
	ex.res.Funcs = ex.coverage()
	sort.Slice(ex.res.Violations, func(i, j int) bool { return ex.res.Violations[i].Sig() < ex.res.Violations[j].Sig() })
	return ex.res
}

func (ex *explorer) coverage() map[string][2]int {
	out := map[string][2]int{}
	perFn := map[*ssa.Function]int{}
	for b := range ex.cov {
		perFn[b.Parent()]++
	}
	for f, n := range perFn {
		if f.Pkg == nil || !strings.Contains(f.Pkg.Pkg.Path(), "fullstorydev/emulators") {
			continue
		}
		out[f.String()] = [2]int{n, len(f.Blocks)}
	}
	return out
}

// getTask blocks until a task is available or all work is finished.
func (ex *explorer) getTask() (task, bool) {
	ex.mu.Lock()
	defer ex.mu.Unlock()
	for {
		if ex.done || atomic.LoadInt32(&ex.stop) != 0 {
			ex.done = true
			ex.cond.Broadcast()
			return task{}, false
		}
		if n := len(ex.queue); n > 0 {
			t := ex.queue[n-1]
			ex.queue = ex.queue[:n-1]
			return t, true
		}
		ex.idle++
		if ex.idle == ex.cfg.Workers {
			ex.done = true
			ex.cond.Broadcast()
			return task{}, false
		}
		ex.cond.Wait()
		ex.idle--
	}
}

// wantDonation reports whether some worker is starving.
func (ex *explorer) wantDonation() bool {
	ex.mu.Lock()
	defer ex.mu.Unlock()
	return ex.idle > 0 && len(ex.queue) < ex.idle
}

func (ex *explorer) donate(t task) {
	ex.mu.Lock()
	ex.queue = append(ex.queue, t)
	ex.mu.Unlock()
	ex.cond.Signal()
}

func (w *worker) loop() {
	defer func() {
		if w.pf != nil {
			w.ex.mu.Lock()
			w.ex.res.Solver.merge(w.pf.stats)
			w.ex.mu.Unlock()
			w.pf.close()
		}
		w.ex.covMu.Lock()
		for b := range w.cov {
			w.ex.cov[b] = true
		}
		w.ex.covMu.Unlock()
	}()
	for {
		t, ok := w.ex.getTask()
		if !ok {
			return
		}
		if w.i == nil {
			w.pf = newPortfolio(w.ex.cfg.Solvers)
			w.i = newInterpreter(w.ex.prog, w)
		}
		w.exploreSubtree(t)
	}
}

func cloneTrail(tr []Decision) []Decision {
	out := make([]Decision, len(tr))
	for i, d := range tr {
		out[i] = Decision{Kind: d.Kind, N: d.N, Chosen: d.Chosen, Vals: d.Vals}
	}
	return out
}

// exploreSubtree runs DFS below the task's prefix.
func (w *worker) exploreSubtree(t task) {
	ex := w.ex
	trail := cloneTrail(t.prefix)
	fixed := len(trail)
	for {
		if atomic.LoadInt32(&ex.stop) != 0 {
			return
		}
		if ex.cfg.TimeLimit > 0 && time.Since(ex.t0) > ex.cfg.TimeLimit {
			ex.mu.Lock()
			ex.res.Complete = false
			ex.res.Inconclusive["time-limit"]++
			ex.mu.Unlock()
			atomic.StoreInt32(&ex.stop, 1)
			return
		}
		if len(w.pf.tt.terms) > 300000 {
			w.pf.reset()
		}
		r := w.runPath(trail, fixed)
		trail = r.trail
		n := atomic.AddInt64(&ex.paths, 1)
		if ex.cfg.MaxPaths > 0 && n >= int64(ex.cfg.MaxPaths) {
			ex.mu.Lock()
			ex.res.Complete = false
			ex.res.Inconclusive["max-paths"]++
			ex.mu.Unlock()
			atomic.StoreInt32(&ex.stop, 1)
			return
		}
		// donate alternatives near the root if someone is idle
		if ex.wantDonation() {
			for d := fixed; d < len(trail); d++ {
				if len(trail[d].alts) > 0 {
					for _, a := range trail[d].alts {
						p := cloneTrail(trail[:d+1])
						p[d].Chosen = a
						ex.donate(task{prefix: p})
					}
					trail[d].alts = nil
					break
				}
			}
		}
		// backtrack
		for len(trail) > fixed {
			d := len(trail) - 1
			if len(trail[d].alts) > 0 {
				trail[d].Chosen = trail[d].alts[0]
				trail[d].alts = trail[d].alts[1:]
				break
			}
			trail = trail[:d]
		}
		if len(trail) == fixed {
			return
		}
	}
}

// runPath executes the harness once along trail (extending it at new decisions).
func (w *worker) runPath(trail []Decision, fixed int) *Run {
	ex := w.ex
	r := &Run{w: w, trail: trail, fixed: fixed, nseq: map[string]int{}, reached: map[string]bool{}, objs: map[string]value{}, clock: 1_700_000_000_000_000_000}
	w.run = r
	w.i.run = r
	w.i.sch = newSched(w.i, ex.cfg.MaxPreempt)
	w.i.resetTargetGlobals()
	outcome := ""
	func() {
		defer func() {
			if p := recover(); p != nil {
				outcome = w.classifyPanic(r, p)
			}
		}()
		call(w.i, nil, token.NoPos, ex.fn, nil)
	}()
	w.i.sch.killAll()
	if r.aborted != "" && outcome == "" {
		outcome = r.aborted
	}
	ex.mu.Lock()
	defer ex.mu.Unlock()
	res := ex.res
	if strings.HasPrefix(outcome, "inconclusive:") {
		res.Inconclusive[strings.TrimPrefix(outcome, "inconclusive:")]++
		res.Complete = false
	}
	if strings.HasPrefix(outcome, "engine:") {
		res.EngineErrors = append(res.EngineErrors, outcome)
		res.Complete = false
	}
	res.Steps += int64(r.steps)
	res.Decisions += int64(r.pos)
	res.Nodes += int64(len(r.trail) - fixed)
	if len(r.trail) > res.MaxDepth {
		res.MaxDepth = len(r.trail)
	}
	if w.i.sch.nthreads > 1 {
		if w.i.sch.Pruned {
			res.SleepPruned++
		} else {
			res.Schedules++
		}
	}
	for k := range r.reached {
		res.Reached[k] = true
	}
	for _, v := range r.viols {
		dup := false
		for _, o := range res.Violations {
			if o.Sig() == v.Sig() {
				dup = true
				break
			}
		}
		if !dup || len(res.Violations) < 50 {
			res.Violations = append(res.Violations, v)
		}
		if ex.cfg.StopAtFirst {
			atomic.StoreInt32(&ex.stop, 1)
		}
	}
	maxS := ex.cfg.MaxSamples
	if maxS <= 0 {
		maxS = 8
	}
	if ex.sampleStride == 0 {
		ex.sampleStride = int64(1 + ex.cfg.SampleEvery)
	}
	if outcome == "" && len(r.inputs) > 0 && ex.paths%ex.sampleStride == 0 {
		if len(res.SampleTraces) >= maxS {
			// buffer full: keep every other sample and sample half as often from now on, so that
			// the kept samples stay spread over everything explored so far
			k := 0
			for i := 0; i < len(res.SampleTraces); i += 2 {
				res.SampleTraces[k] = res.SampleTraces[i]
				k++
			}
			res.SampleTraces = res.SampleTraces[:k]
			ex.sampleStride *= 2
		}
		if ex.paths%ex.sampleStride == 0 {
			m := r.cachedModel()
			if m == nil {
				m = r.modelOf(nil)
			}
			if m != nil {
				if len(res.Samples) < 8 {
					s := map[string]interface{}{}
					for _, in := range r.inputs {
						s[in.Name] = fmtVal(in.term.eval(m, map[*Term]uint64{}), in.Bits)
					}
					res.Samples = append(res.Samples, s)
				}
				var tr []InputRec
				memo := map[*Term]uint64{}
				for _, in := range r.inputs {
					tr = append(tr, InputRec{Name: in.Name, Bits: in.Bits, Val: in.term.eval(m, memo)})
				}
				res.SampleTraces = append(res.SampleTraces, tr)
			}
		}
	}
	return r
}

func fmtVal(v uint64, bits int) interface{} {
	if bits == 64 {
		return int64(v)
	}
	return v
}

func (w *worker) classifyPanic(r *Run, p interface{}) string {
	switch p := p.(type) {
	case pathAbort:
		return ""
	case inconclusive:
		return "inconclusive:" + p.why
	case engineError:
		return "engine:" + p.why
	case targetPanic:
		r.violation("panic", "uncaught: "+shorten(toString(p.v)), nil)
		return ""
	case runtime.Error:
		r.violation("panic", "uncaught runtime error: "+shorten(p.Error()), nil)
		return ""
	case string:
		// interpreter-raised panic (nil deref in method call, type assertion failure, ...)
		if strings.HasPrefix(p, "gosym:") {
			return "engine:" + p
		}
		r.violation("panic", "uncaught: "+shorten(p), nil)
		return ""
	default:
		return fmt.Sprintf("engine:unexpected panic %T %v\n%s", p, p, debug.Stack())
	}
}

func shorten(s string) string {
	if len(s) > 160 {
		return s[:160]
	}
	return s
}

// ---- path condition and decisions ----

func (r *Run) addPC(t *Term) { r.addPCx(t, false) }

// addPCx appends a conjunct. implied=true means pc already entails t, so a model of pc stays a model.
func (r *Run) addPCx(t *Term, implied bool) {
	if t.isTrue() {
		return
	}
	tt := r.w.pf.tt
	id := tt.intern(t)
	r.pc = append(r.pc, t)
	r.pcIDs = append(r.pcIDs, id)
	vars := tt.varsOf(id, r.w.pf.varMemo)
	if r.pcVars == nil {
		r.pcVars = map[string]bool{}
	}
	if !implied && len(r.mvalid) > 0 {
		if v, ok := r.evalModel(t); !ok || !v {
			r.mvalid = map[string]bool{} // the cached model no longer covers the path condition
		}
	}
	for _, v := range vars {
		name := tt.terms[v-1].name
		if !r.pcVars[name] {
			r.pcVars[name] = true
			if !implied && len(r.mvalid) > 0 {
				r.mvalid[name] = true // was free; its model value (default 0) satisfied t
			}
		}
	}
}

// evalModel evaluates t under the cached model when that model is known to
// satisfy every path-condition conjunct that shares variables with t.
func (r *Run) evalModel(t *Term) (val bool, ok bool) {
	if r.mvalid == nil {
		return false, false
	}
	tt := r.w.pf.tt
	id := tt.intern(t)
	for _, v := range tt.varsOf(id, r.w.pf.varMemo) {
		name := tt.terms[v-1].name
		if !r.mvalid[name] && r.pcVars[name] {
			return false, false
		}
	}
	if r.model == nil {
		r.model = Model{}
	}
	return t.eval(r.model, map[*Term]uint64{}) == 1, true
}

// cachedModel returns the cached model when it satisfies the whole path condition (checked by
// exact evaluation of every conjunct), so that sampling a passing path needs no solver call.
func (r *Run) cachedModel() Model {
	if r.model == nil {
		return nil
	}
	memo := map[*Term]uint64{}
	for _, t := range r.pc {
		if t.eval(r.model, memo) != 1 {
			return nil
		}
	}
	m := Model{}
	for k, v := range r.model {
		m[k] = v
	}
	return m
}

// installModel records a solver model for the variables it covers.
func (r *Run) installModel(m Model) {
	if m == nil {
		return
	}
	if r.model == nil {
		r.model = Model{}
	}
	if r.mvalid == nil {
		r.mvalid = map[string]bool{}
	}
	for k, v := range m {
		r.model[k] = v
		r.mvalid[k] = true
	}
}

// feasibleM is feasible() that also returns a model of the queried slice when one was needed.
func (r *Run) feasibleM(t *Term) (bool, Model) {
	if t.isTrue() {
		return true, nil
	}
	if t.isFalse() {
		return false, nil
	}
	if v, ok := r.evalModel(t); ok && v {
		r.w.pf.stats.ModelHits++
		return true, nil
	}
	res, m := r.w.pf.check(r.pcIDsNow(), r.w.pf.tt.intern(t), true, false)
	if res == "unsat" {
		return false, nil
	}
	if res != "sat" {
		m = nil
	}
	return true, m
}

func (r *Run) pcIDsNow() []int {
	// ids may be stale after a table reset; re-intern lazily
	tt := r.w.pf.tt
	for i, t := range r.pc {
		if t.tt != tt || t.id == 0 {
			r.pcIDs[i] = tt.intern(t)
		}
	}
	return r.pcIDs
}

// feasible asks whether pc ∧ t is satisfiable; unknown counts as feasible.
func (r *Run) feasible(t *Term) bool {
	if t.isTrue() {
		return true
	}
	if t.isFalse() {
		return false
	}
	res, _ := r.w.pf.check(r.pcIDsNow(), r.w.pf.tt.intern(t), false, false)
	return res != "unsat"
}

func (r *Run) countDecision() {
	if r.pos > r.w.ex.cfg.MaxDecisions {
		panic(inconclusive{"decision-budget"})
	}
}

// decideTerms picks one of mutually exclusive, jointly exhaustive options.
func (r *Run) decideTerms(kind string, opts []*Term) int {
	// constant options need no decision
	live := -1
	nlive := 0
	for k, o := range opts {
		if !o.isFalse() {
			live = k
			nlive++
		}
	}
	if nlive == 1 {
		r.addPC(opts[live])
		return live
	}
	if nlive == 0 {
		panic(pathAbort{"no option"})
	}
	r.countDecision()
	if r.pos < len(r.trail) {
		d := &r.trail[r.pos]
		if d.Kind != kind || d.N != len(opts) {
			panic(engineError{fmt.Sprintf("non-deterministic replay at decision %d: have %s/%d want %s/%d", r.pos, kind, len(opts), d.Kind, d.N)})
		}
		r.pos++
		r.addPC(opts[d.Chosen])
		return d.Chosen
	}
	var feas []int
	var firstModel Model
	haveFirst := false
	for k, o := range opts {
		if o.isFalse() {
			continue
		}
		// last option: if none feasible so far it must be (pc is satisfiable)
		if k == len(opts)-1 && len(feas) == 0 {
			feas = append(feas, k)
			break
		}
		if ok, m := r.feasibleM(o); ok {
			if len(feas) == 0 {
				firstModel, haveFirst = m, true
			}
			feas = append(feas, k)
		}
	}
	if len(feas) == 0 {
		panic(pathAbort{"infeasible"})
	}
	if haveFirst {
		r.installModel(firstModel)
	}
	r.trail = append(r.trail, Decision{Kind: kind, N: len(opts), Chosen: feas[0], alts: feas[1:]})
	r.pos++
	r.addPC(opts[feas[0]])
	return feas[0]
}

// decideN picks one of n unconstrained options (choices, schedules).
func (r *Run) decideN(kind string, n int) int {
	if n <= 1 {
		return 0
	}
	r.countDecision()
	if r.pos < len(r.trail) {
		d := &r.trail[r.pos]
		if d.Kind != kind || d.N != n {
			panic(engineError{fmt.Sprintf("non-deterministic replay at decision %d: have %s/%d want %s/%d", r.pos, kind, n, d.Kind, d.N)})
		}
		r.pos++
		return d.Chosen
	}
	alts := make([]int, 0, n-1)
	for k := 1; k < n; k++ {
		alts = append(alts, k)
	}
	r.trail = append(r.trail, Decision{Kind: kind, N: n, Chosen: 0, alts: alts})
	r.pos++
	return 0
}

// branch decides a symbolic boolean.
func (r *Run) branch(c *Term) bool {
	if c.isConst() {
		return c.val == 1
	}
	return r.decideTerms("br", []*Term{c, mkNot(c)}) == 0
}

// concretise enumerates the feasible values of a bit-vector term and picks one.
func (r *Run) concretise(t *Term, what string) uint64 {
	if t.isConst() {
		return t.val
	}
	r.countDecision()
	if r.pos < len(r.trail) {
		d := &r.trail[r.pos]
		if d.Kind != "conc" {
			panic(engineError{fmt.Sprintf("non-deterministic replay at decision %d: have conc want %s", r.pos, d.Kind)})
		}
		r.pos++
		v := d.Vals[d.Chosen]
		r.addPC(mkEq(t, mkBV(v, t.bits)))
		return v
	}
	var vals []uint64
	pf := r.w.pf
	excl := []*Term{}
	cname := fmt.Sprintf("$conc%d", t.bits)
	tmp := mkVar(cname, t.bits)
	for {
		q := mkAnd(append([]*Term{mkEq(t, tmp)}, excl...)...)
		res, m := pf.check(r.pcIDsNow(), pf.tt.intern(q), true, false)
		if res == "unsat" {
			break
		}
		if res != "sat" || m == nil {
			panic(inconclusive{"concretise-unknown:" + what})
		}
		v := m[cname] & mask(t.bits)
		vals = append(vals, v)
		excl = append(excl, mkNot(mkEq(t, mkBV(v, t.bits))))
		if len(vals) > r.w.ex.cfg.MaxConcretise {
			panic(inconclusive{"concretise-range:" + what})
		}
	}
	if len(vals) == 0 {
		panic(pathAbort{"infeasible"})
	}
	sort.Slice(vals, func(i, j int) bool { return vals[i] < vals[j] })
	alts := make([]int, 0, len(vals)-1)
	for k := 1; k < len(vals); k++ {
		alts = append(alts, k)
	}
	r.trail = append(r.trail, Decision{Kind: "conc", N: len(vals), Chosen: 0, Vals: vals, alts: alts})
	r.pos++
	r.addPC(mkEq(t, mkBV(vals[0], t.bits)))
	return vals[0]
}

// modelOf returns a model of pc ∧ extra over all inputs, or nil.
func (r *Run) modelOf(extra *Term) Model {
	pf := r.w.pf
	q := termTrue
	if extra != nil {
		q = extra
	}
	// mention every input so that get-value covers them
	res, m := pf.check(r.pcIDsNow(), pf.tt.intern(q), true, true)
	if res != "sat" {
		return nil
	}
	if m == nil {
		m = Model{}
	}
	return m
}

func (r *Run) violation(kind, label string, extra *Term) {
	v := &Violation{Harness: r.w.ex.cfg.Harness, Kind: kind, Label: label, Tags: append([]string{}, r.tags...)}
	m := r.modelOf(extra)
	if m != nil {
		v.Model = m
		memo := map[*Term]uint64{}
		for _, in := range r.inputs {
			v.Inputs = append(v.Inputs, InputRec{Name: in.Name, Bits: in.Bits, Val: in.term.eval(m, memo)})
		}
	} else {
		v.Msg = "no model (solver unknown)"
	}
	if kind == "panic" {
		v.Msg += " at " + r.panicSite
		v.Label += " in " + r.panicFn
	}
	v.Trail = cloneTrail(r.trail[:r.pos])
	v.Sched = append([]int{}, r.w.i.sch.history...)
	r.viols = append(r.viols, v)
	if r.w.ex.cfg.Trace {
		fmt.Fprintf(os.Stderr, "VIOL %s %s %v\n", kind, label, v.Inputs)
	}
}

// assert checks an obligation on the current path.
func (r *Run) assert(c *Term, label string) {
	ex := r.w.ex
	atomic.AddInt64(&ex.res.Obligations, 1)
	if c.isTrue() {
		atomic.AddInt64(&ex.res.Discharged, 1)
		return
	}
	if c.isFalse() {
		r.violation("assert", label, nil)
		panic(pathAbort{"assert failed"})
	}
	pf := r.w.pf
	neg := mkNot(c)
	res, _ := pf.check(r.pcIDsNow(), pf.tt.intern(neg), false, false)
	switch res {
	case "unsat":
		atomic.AddInt64(&ex.res.Discharged, 1)
		if ex.cfg.CrossCheck {
			if d := pf.crossCheck(r.pcIDsNow(), pf.tt.intern(neg), "unsat"); d != "" {
				ex.mu.Lock()
				ex.res.Disagreements = append(ex.res.Disagreements, label+": "+d)
				ex.mu.Unlock()
			}
		}
		r.addPCx(c, true)
	case "sat":
		r.violation("assert", label, neg)
		// continue on the side where the assertion holds, if any
		if !r.feasible(c) {
			panic(pathAbort{"assert failed on all values"})
		}
		r.addPC(c)
	default:
		atomic.AddInt64(&ex.res.UnknownAsserts, 1)
		r.addPC(c)
	}
}

func (r *Run) assume(c *Term) {
	if c.isTrue() {
		return
	}
	if c.isFalse() {
		panic(pathAbort{"assume infeasible"})
	}
	ok, m := r.feasibleM(c)
	if !ok {
		panic(pathAbort{"assume infeasible"})
	}
	r.installModel(m)
	r.addPC(c)
}

func (r *Run) fresh(name string, bits int) *Term {
	k := r.nseq[name]
	r.nseq[name] = k + 1
	full := fmt.Sprintf("%s#%d", name, k)
	t := mkVar(full, bits)
	if r.w.fixedInputs != nil {
		t = mkBV(r.w.fixedInputs[full], bits)
		if bits == 0 {
			t = mkBool(r.w.fixedInputs[full] != 0)
		}
	}
	r.inputs = append(r.inputs, InputRec{Name: full, Bits: bits, term: t})
	return t
}

// ReplayFile re-executes one recorded violation concretely: every input takes
// the value of the recorded model and every decision follows the recorded
// trail. The result's violations are those observed on that single path.
func ReplayFile(prog *ssa.Program, fn *ssa.Function, cfg Config, path string) *Result {
	b, err := os.ReadFile(path)
	if err != nil {
		panic(err)
	}
	var v Violation
	if err := json.Unmarshal(b, &v); err != nil {
		panic(err)
	}
	cfg.Workers = 1
	if cfg.MaxSteps <= 0 {
		cfg.MaxSteps = 20_000_000
	}
	if cfg.MaxDecisions <= 0 {
		cfg.MaxDecisions = 5000
	}
	if cfg.MaxConcretise <= 0 {
		cfg.MaxConcretise = 64
	}
	if cfg.MaxPreempt <= 0 {
		cfg.MaxPreempt = 1 << 30
	}
	if len(cfg.Solvers) == 0 {
		cfg.Solvers = []string{"z3"}
	}
	ex := &explorer{prog: prog, fn: fn, cfg: cfg, t0: time.Now(), cov: map[*ssa.BasicBlock]bool{}}
	ex.cond = sync.NewCond(&ex.mu)
	ex.res = &Result{Harness: cfg.Harness, Inconclusive: map[string]int{}, Solver: newSolverStats(), Reached: map[string]bool{}, Complete: true}
	w := &worker{ex: ex, cov: map[*ssa.BasicBlock]bool{}}
	w.pf = newPortfolio(cfg.Solvers)
	defer w.pf.close()
	w.i = newInterpreter(prog, w)
	fixed := map[string]uint64{}
	for _, in := range v.Inputs {
		fixed[in.Name] = in.Val
	}
	w.fixedInputs = fixed
	// with concrete inputs the data decisions (branch, concretise, map key) fold away;
	// only the control decisions (choices, schedules, selects) are replayed
	var ctl []Decision
	for _, d := range v.Trail {
		switch d.Kind {
		case "choice", "sched", "select":
			ctl = append(ctl, d)
		}
	}
	w.runPath(ctl, len(ctl))
	ex.res.Paths = 1
	ex.res.Wall = time.Since(ex.t0).Seconds()
	ex.res.Solver.merge(w.pf.stats)
	return ex.res
}
