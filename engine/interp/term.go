package interp

// Term DAG for the symbolic part of values: booleans and fixed-width
// bit-vectors. Constructors fold constants so that anything computed from
// concrete operands stays concrete. Terms are immutable; the id field is a
// memo owned by the single worker (termTable) that created the term.

import (
	"fmt"
	"strconv"
	"strings"
)

type opKind uint8

const (
	opConst opKind = iota // bit-vector or bool constant
	opVar
	opNot
	opAnd
	opOr
	opEq
	opIte
	opBvAdd
	opBvSub
	opBvMul
	opBvUDiv
	opBvURem
	opBvSDiv
	opBvSRem
	opBvAnd
	opBvOr
	opBvXor
	opBvNot
	opBvNeg
	opBvShl
	opBvLShr
	opBvAShr
	opBvULt
	opBvULe
	opBvSLt
	opBvSLe
	opZeroExt // args[0] extended to bits
	opSignExt
	opExtract // low bits of args[0]
	opConcat  // args[0] high, args[1] low
)

var opNames = map[opKind]string{
	opNot: "not", opAnd: "and", opOr: "or", opEq: "=", opIte: "ite",
	opBvAdd: "bvadd", opBvSub: "bvsub", opBvMul: "bvmul", opBvUDiv: "bvudiv", opBvURem: "bvurem",
	opBvSDiv: "bvsdiv", opBvSRem: "bvsrem", opBvAnd: "bvand", opBvOr: "bvor", opBvXor: "bvxor",
	opBvNot: "bvnot", opBvNeg: "bvneg", opBvShl: "bvshl", opBvLShr: "bvlshr", opBvAShr: "bvashr",
	opBvULt: "bvult", opBvULe: "bvule", opBvSLt: "bvslt", opBvSLe: "bvsle", opConcat: "concat",
}

// Term is a node of the symbolic expression DAG. bits==0 means Bool.
type Term struct {
	op   opKind
	bits int
	val  uint64 // opConst: value (bool: 0/1), masked to bits
	name string // opVar
	args []*Term
	id   int // memo: index in the owning worker's termTable (0 = not interned)
	tt   *termTable
}

func mask(bits int) uint64 {
	if bits >= 64 {
		return ^uint64(0)
	}
	return (uint64(1) << uint(bits)) - 1
}

func signExt(v uint64, bits int) int64 {
	if bits >= 64 {
		return int64(v)
	}
	sh := uint(64 - bits)
	return int64(v<<sh) >> sh
}

var (
	termTrue  = &Term{op: opConst, bits: 0, val: 1}
	termFalse = &Term{op: opConst, bits: 0, val: 0}
)

func mkBool(b bool) *Term {
	if b {
		return termTrue
	}
	return termFalse
}

func mkBV(v uint64, bits int) *Term { return &Term{op: opConst, bits: bits, val: v & mask(bits)} }

func mkVar(name string, bits int) *Term { return &Term{op: opVar, bits: bits, name: name} }

func (t *Term) isConst() bool { return t.op == opConst }
func (t *Term) isTrue() bool  { return t.op == opConst && t.bits == 0 && t.val == 1 }
func (t *Term) isFalse() bool { return t.op == opConst && t.bits == 0 && t.val == 0 }

func mkNot(a *Term) *Term {
	if a.isConst() {
		return mkBool(a.val == 0)
	}
	if a.op == opNot {
		return a.args[0]
	}
	return &Term{op: opNot, args: []*Term{a}}
}

func mkAnd(xs ...*Term) *Term {
	var out []*Term
	for _, x := range xs {
		if x.isFalse() {
			return termFalse
		}
		if x.isTrue() {
			continue
		}
		if x.op == opAnd {
			out = append(out, x.args...)
			continue
		}
		out = append(out, x)
	}
	switch len(out) {
	case 0:
		return termTrue
	case 1:
		return out[0]
	}
	return &Term{op: opAnd, args: out}
}

func mkOr(xs ...*Term) *Term {
	var out []*Term
	for _, x := range xs {
		if x.isTrue() {
			return termTrue
		}
		if x.isFalse() {
			continue
		}
		if x.op == opOr {
			out = append(out, x.args...)
			continue
		}
		out = append(out, x)
	}
	switch len(out) {
	case 0:
		return termFalse
	case 1:
		return out[0]
	}
	return &Term{op: opOr, args: out}
}

func mkImplies(a, b *Term) *Term { return mkOr(mkNot(a), b) }

func mkEq(a, b *Term) *Term {
	if a.bits != b.bits {
		panic(fmt.Sprintf("mkEq: width mismatch %d vs %d", a.bits, b.bits))
	}
	if a.isConst() && b.isConst() {
		return mkBool(a.val == b.val)
	}
	if a == b {
		return termTrue
	}
	if a.bits == 0 {
		// bool equality with a constant simplifies
		if a.isConst() {
			a, b = b, a
		}
		if b.isConst() {
			if b.val == 1 {
				return a
			}
			return mkNot(a)
		}
	}
	return &Term{op: opEq, args: []*Term{a, b}}
}

func mkIte(c, a, b *Term) *Term {
	if c.isConst() {
		if c.val == 1 {
			return a
		}
		return b
	}
	if a == b {
		return a
	}
	if a.isConst() && b.isConst() && a.bits == b.bits && a.val == b.val {
		return a
	}
	if a.bits == 0 {
		if a.isTrue() && b.isFalse() {
			return c
		}
		if a.isFalse() && b.isTrue() {
			return mkNot(c)
		}
	}
	return &Term{op: opIte, bits: a.bits, args: []*Term{c, a, b}}
}

func foldBin(op opKind, x, y uint64, bits int) (uint64, bool) {
	m := mask(bits)
	switch op {
	case opBvAdd:
		return (x + y) & m, true
	case opBvSub:
		return (x - y) & m, true
	case opBvMul:
		return (x * y) & m, true
	case opBvUDiv:
		if y == 0 {
			return m, true // SMT-LIB semantics; Go panics before reaching here
		}
		return (x / y) & m, true
	case opBvURem:
		if y == 0 {
			return x, true
		}
		return (x % y) & m, true
	case opBvSDiv:
		sx, sy := signExt(x, bits), signExt(y, bits)
		if sy == 0 {
			if sx < 0 {
				return 1, true
			}
			return m, true
		}
		if sy == -1 {
			return uint64(-sx) & m, true
		}
		return uint64(sx/sy) & m, true
	case opBvSRem:
		sx, sy := signExt(x, bits), signExt(y, bits)
		if sy == 0 {
			return x, true
		}
		if sy == -1 {
			return 0, true
		}
		return uint64(sx%sy) & m, true
	case opBvAnd:
		return x & y, true
	case opBvOr:
		return x | y, true
	case opBvXor:
		return x ^ y, true
	case opBvShl:
		if y >= uint64(bits) {
			return 0, true
		}
		return (x << y) & m, true
	case opBvLShr:
		if y >= uint64(bits) {
			return 0, true
		}
		return (x >> y) & m, true
	case opBvAShr:
		sx := signExt(x, bits)
		if y >= uint64(bits) {
			y = uint64(bits - 1)
		}
		return uint64(sx>>y) & m, true
	}
	return 0, false
}

func mkBin(op opKind, a, b *Term) *Term {
	if a.bits != b.bits || a.bits == 0 {
		panic(fmt.Sprintf("mkBin %v: widths %d %d", opNames[op], a.bits, b.bits))
	}
	if a.isConst() && b.isConst() {
		if v, ok := foldBin(op, a.val, b.val, a.bits); ok {
			return mkBV(v, a.bits)
		}
	}
	// light identities
	switch op {
	case opBvAdd, opBvOr, opBvXor:
		if a.isConst() && a.val == 0 {
			return b
		}
		if b.isConst() && b.val == 0 {
			return a
		}
	case opBvSub, opBvShl, opBvLShr, opBvAShr:
		if b.isConst() && b.val == 0 {
			return a
		}
	case opBvAnd:
		if a.isConst() && a.val == 0 || b.isConst() && b.val == 0 {
			return mkBV(0, a.bits)
		}
		if a.isConst() && a.val == mask(a.bits) {
			return b
		}
		if b.isConst() && b.val == mask(a.bits) {
			return a
		}
	case opBvMul:
		if a.isConst() && a.val == 1 {
			return b
		}
		if b.isConst() && b.val == 1 {
			return a
		}
		if a.isConst() && a.val == 0 || b.isConst() && b.val == 0 {
			return mkBV(0, a.bits)
		}
	}
	return &Term{op: op, bits: a.bits, args: []*Term{a, b}}
}

func mkCmp(op opKind, a, b *Term) *Term {
	if a.bits != b.bits || a.bits == 0 {
		panic(fmt.Sprintf("mkCmp %v: widths %d %d", opNames[op], a.bits, b.bits))
	}
	if a.isConst() && b.isConst() {
		switch op {
		case opBvULt:
			return mkBool(a.val < b.val)
		case opBvULe:
			return mkBool(a.val <= b.val)
		case opBvSLt:
			return mkBool(signExt(a.val, a.bits) < signExt(b.val, b.bits))
		case opBvSLe:
			return mkBool(signExt(a.val, a.bits) <= signExt(b.val, b.bits))
		}
	}
	if a == b {
		return mkBool(op == opBvULe || op == opBvSLe)
	}
	return &Term{op: op, args: []*Term{a, b}}
}

func mkUn(op opKind, a *Term) *Term {
	if a.isConst() {
		switch op {
		case opBvNot:
			return mkBV(^a.val, a.bits)
		case opBvNeg:
			return mkBV(-a.val, a.bits)
		}
	}
	return &Term{op: op, bits: a.bits, args: []*Term{a}}
}

// mkResize converts a bit-vector to another width (Go integer conversion).
func mkResize(a *Term, toBits int, signed bool) *Term {
	if a.bits == toBits {
		return a
	}
	if a.isConst() {
		if toBits < a.bits {
			return mkBV(a.val, toBits)
		}
		if signed {
			return mkBV(uint64(signExt(a.val, a.bits)), toBits)
		}
		return mkBV(a.val, toBits)
	}
	if toBits < a.bits {
		return &Term{op: opExtract, bits: toBits, args: []*Term{a}}
	}
	if signed {
		return &Term{op: opSignExt, bits: toBits, args: []*Term{a}}
	}
	return &Term{op: opZeroExt, bits: toBits, args: []*Term{a}}
}

func mkConcat(hi, lo *Term) *Term {
	if hi.isConst() && lo.isConst() {
		return mkBV(hi.val<<uint(lo.bits)|lo.val, hi.bits+lo.bits)
	}
	return &Term{op: opConcat, bits: hi.bits + lo.bits, args: []*Term{hi, lo}}
}

// ---- evaluation under a model ----

type Model map[string]uint64

func (t *Term) eval(m Model, memo map[*Term]uint64) uint64 {
	switch t.op {
	case opConst:
		return t.val
	case opVar:
		return m[t.name] & maskOrBool(t.bits)
	}
	if v, ok := memo[t]; ok {
		return v
	}
	var r uint64
	a := func(i int) uint64 { return t.args[i].eval(m, memo) }
	b2u := func(b bool) uint64 {
		if b {
			return 1
		}
		return 0
	}
	switch t.op {
	case opNot:
		r = 1 - a(0)
	case opAnd:
		r = 1
		for i := range t.args {
			if a(i) == 0 {
				r = 0
				break
			}
		}
	case opOr:
		r = 0
		for i := range t.args {
			if a(i) == 1 {
				r = 1
				break
			}
		}
	case opEq:
		r = b2u(a(0) == a(1))
	case opIte:
		if a(0) == 1 {
			r = a(1)
		} else {
			r = a(2)
		}
	case opBvULt:
		r = b2u(a(0) < a(1))
	case opBvULe:
		r = b2u(a(0) <= a(1))
	case opBvSLt:
		r = b2u(signExt(a(0), t.args[0].bits) < signExt(a(1), t.args[0].bits))
	case opBvSLe:
		r = b2u(signExt(a(0), t.args[0].bits) <= signExt(a(1), t.args[0].bits))
	case opBvNot:
		r = ^a(0) & mask(t.bits)
	case opBvNeg:
		r = -a(0) & mask(t.bits)
	case opZeroExt:
		r = a(0)
	case opSignExt:
		r = uint64(signExt(a(0), t.args[0].bits)) & mask(t.bits)
	case opExtract:
		r = a(0) & mask(t.bits)
	case opConcat:
		r = a(0)<<uint(t.args[1].bits) | a(1)
	default:
		v, ok := foldBin(t.op, a(0), a(1), t.bits)
		if !ok {
			panic("eval: op " + opNames[t.op])
		}
		r = v
	}
	memo[t] = r
	return r
}

func maskOrBool(bits int) uint64 {
	if bits == 0 {
		return 1
	}
	return mask(bits)
}

// ---- interning and SMT-LIB output (per worker) ----

type termTable struct {
	byKey map[string]int
	terms []*Term // index = id-1 ; canonical representative
	defs  []string
	vars  []int // ids of variables in creation order
}

func newTermTable() *termTable { return &termTable{byKey: map[string]int{}} }

func sortOf(bits int) string {
	if bits == 0 {
		return "Bool"
	}
	return "(_ BitVec " + strconv.Itoa(bits) + ")"
}

// intern returns the id of t in this table, defining it if needed.
func (tt *termTable) intern(t *Term) int {
	if t.id != 0 && t.tt == tt {
		return t.id
	}
	var key string
	var body string
	switch t.op {
	case opConst:
		if t.bits == 0 {
			if t.val == 1 {
				key = "true"
			} else {
				key = "false"
			}
		} else {
			key = "(_ bv" + strconv.FormatUint(t.val, 10) + " " + strconv.Itoa(t.bits) + ")"
		}
		body = key
	case opVar:
		key = "v:" + t.name + ":" + strconv.Itoa(t.bits)
	default:
		ids := make([]string, len(t.args))
		for i, a := range t.args {
			ids[i] = tt.ref(tt.intern(a))
		}
		switch t.op {
		case opZeroExt:
			body = "((_ zero_extend " + strconv.Itoa(t.bits-t.args[0].bits) + ") " + ids[0] + ")"
		case opSignExt:
			body = "((_ sign_extend " + strconv.Itoa(t.bits-t.args[0].bits) + ") " + ids[0] + ")"
		case opExtract:
			body = "((_ extract " + strconv.Itoa(t.bits-1) + " 0) " + ids[0] + ")"
		default:
			body = "(" + opNames[t.op] + " " + strings.Join(ids, " ") + ")"
		}
		key = body
	}
	if id, ok := tt.byKey[key]; ok {
		t.id, t.tt = id, tt
		return id
	}
	id := len(tt.terms) + 1
	tt.terms = append(tt.terms, t)
	tt.byKey[key] = id
	t.id, t.tt = id, tt
	switch t.op {
	case opConst:
		tt.defs = append(tt.defs, "")
	case opVar:
		tt.defs = append(tt.defs, "(declare-const "+smtName(t.name)+" "+sortOf(t.bits)+")")
		tt.vars = append(tt.vars, id)
	default:
		tt.defs = append(tt.defs, "(define-fun t"+strconv.Itoa(id)+" () "+sortOf(t.bits)+" "+body+")")
	}
	return id
}

func smtName(n string) string { return "|" + n + "|" }

// ref is how term id is referred to inside other SMT text.
func (tt *termTable) ref(id int) string {
	t := tt.terms[id-1]
	switch t.op {
	case opConst:
		if t.bits == 0 {
			if t.val == 1 {
				return "true"
			}
			return "false"
		}
		return "(_ bv" + strconv.FormatUint(t.val, 10) + " " + strconv.Itoa(t.bits) + ")"
	case opVar:
		return smtName(t.name)
	}
	return "t" + strconv.Itoa(id)
}

// varsOf collects the variable ids under term id (memoised per table).
func (tt *termTable) varsOf(id int, memo map[int][]int) []int {
	if vs, ok := memo[id]; ok {
		return vs
	}
	t := tt.terms[id-1]
	var out []int
	switch t.op {
	case opConst:
	case opVar:
		out = []int{id}
	default:
		seen := map[int]bool{}
		for _, a := range t.args {
			for _, v := range tt.varsOf(tt.intern(a), memo) {
				if !seen[v] {
					seen[v] = true
					out = append(out, v)
				}
			}
		}
	}
	memo[id] = out
	return out
}

// String renders a term as plain SMT-LIB text (for messages only).
func (t *Term) String() string {
	switch t.op {
	case opConst:
		if t.bits == 0 {
			if t.val == 1 {
				return "true"
			}
			return "false"
		}
		return fmt.Sprintf("#x%0*x", (t.bits+3)/4, t.val)
	case opVar:
		return t.name
	case opZeroExt:
		return "(zext" + strconv.Itoa(t.bits) + " " + t.args[0].String() + ")"
	case opSignExt:
		return "(sext" + strconv.Itoa(t.bits) + " " + t.args[0].String() + ")"
	case opExtract:
		return "(trunc" + strconv.Itoa(t.bits) + " " + t.args[0].String() + ")"
	}
	s := "(" + opNames[t.op]
	for _, a := range t.args {
		s += " " + a.String()
	}
	return s + ")"
}
