package interp

// Strings of concrete length whose bytes may be symbolic.

import "go/token"

type symstr struct{ b []value }

// mkString builds a string value from bytes; concrete when all bytes are.
func mkString(bs []value) value {
	conc := true
	for _, b := range bs {
		if isSym(b) {
			conc = false
			break
		}
	}
	if conc {
		out := make([]byte, len(bs))
		for i, b := range bs {
			out[i] = b.(uint8)
		}
		return string(out)
	}
	return symstr{b: append([]value{}, bs...)}
}

func strBytes(v value) []value {
	switch s := v.(type) {
	case string:
		out := make([]value, len(s))
		for i := 0; i < len(s); i++ {
			out[i] = s[i]
		}
		return out
	case symstr:
		return s.b
	}
	panic("gosym: strBytes of non-string")
}

func isStr(v value) bool {
	switch v.(type) {
	case string, symstr:
		return true
	}
	return false
}

func symstrEq(x symstr, y value) *Term {
	yb := strBytes(y)
	if len(x.b) != len(yb) {
		return termFalse
	}
	var cs []*Term
	for i := range x.b {
		cs = append(cs, mkEq(toTerm(x.b[i]), toTerm(yb[i])))
	}
	return mkAnd(cs...)
}

// bytesCmpTerm returns a 64-bit term: -1, 0, +1 as bytes.Compare(a, b).
func bytesCmpTerm(a, b []value) *Term {
	n := len(a)
	if len(b) < n {
		n = len(b)
	}
	tail := int64(0)
	if len(a) < len(b) {
		tail = -1
	} else if len(a) > len(b) {
		tail = 1
	}
	t := mkBV(uint64(tail), 64)
	for i := n - 1; i >= 0; i-- {
		x, y := toTerm(a[i]), toTerm(b[i])
		t = mkIte(mkCmp(opBvULt, x, y), mkBV(^uint64(0), 64), mkIte(mkCmp(opBvULt, y, x), mkBV(1, 64), t))
	}
	return t
}

// bytesEqTerm returns the bool term a == b (bytewise).
func bytesEqTerm(a, b []value) *Term {
	if len(a) != len(b) {
		return termFalse
	}
	var cs []*Term
	for i := range a {
		cs = append(cs, mkEq(toTerm(a[i]), toTerm(b[i])))
	}
	return mkAnd(cs...)
}

// strBinop handles string operators when an operand is symbolic.
func strBinop(op token.Token, x, y value) value {
	a, b := strBytes(x), strBytes(y)
	switch op {
	case token.ADD:
		return mkString(append(append([]value{}, a...), b...))
	case token.EQL:
		return boolValue(bytesEqTerm(a, b))
	case token.NEQ:
		return boolValue(mkNot(bytesEqTerm(a, b)))
	}
	c := bytesCmpTerm(a, b)
	zero := mkBV(0, 64)
	switch op {
	case token.LSS:
		return boolValue(mkCmp(opBvSLt, c, zero))
	case token.LEQ:
		return boolValue(mkCmp(opBvSLe, c, zero))
	case token.GTR:
		return boolValue(mkCmp(opBvSLt, zero, c))
	case token.GEQ:
		return boolValue(mkCmp(opBvSLe, zero, c))
	}
	panic("gosym: strBinop " + op.String())
}
