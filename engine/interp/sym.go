package interp

// Symbolic scalar values and the operator hooks used by the interpreter.

import (
	"fmt"
	"go/token"
	"go/types"
)

// Sym is a symbolic bool (Kind==types.Bool) or integer of a Go basic kind.
type Sym struct {
	T    *Term
	Kind types.BasicKind
}

// opaque is a value whose content is deliberately unknown (stubbed formatting).
type opaque struct {
	tag      string
	nonEmpty bool // known to be a non-empty string
}

func isSym(v value) bool { _, ok := v.(*Sym); return ok }

func kindBits(k types.BasicKind) (bits int, signed bool) {
	switch k {
	case types.Bool, types.UntypedBool:
		return 0, false
	case types.Int8:
		return 8, true
	case types.Int16:
		return 16, true
	case types.Int32, types.UntypedRune:
		return 32, true
	case types.Int, types.Int64, types.UntypedInt:
		return 64, true
	case types.Uint8:
		return 8, false
	case types.Uint16:
		return 16, false
	case types.Uint32:
		return 32, false
	case types.Uint, types.Uint64, types.Uintptr:
		return 64, false
	}
	panic(fmt.Sprintf("gosym: kindBits(%v)", k))
}

func kindOfValue(v value) types.BasicKind {
	switch x := v.(type) {
	case *Sym:
		return x.Kind
	case bool:
		return types.Bool
	case int:
		return types.Int
	case int8:
		return types.Int8
	case int16:
		return types.Int16
	case int32:
		return types.Int32
	case int64:
		return types.Int64
	case uint:
		return types.Uint
	case uint8:
		return types.Uint8
	case uint16:
		return types.Uint16
	case uint32:
		return types.Uint32
	case uint64:
		return types.Uint64
	case uintptr:
		return types.Uintptr
	}
	panic(fmt.Sprintf("gosym: kindOfValue(%T)", v))
}

// toTerm converts a concrete or symbolic scalar to a term.
func toTerm(v value) *Term {
	switch x := v.(type) {
	case *Sym:
		return x.T
	case bool:
		return mkBool(x)
	}
	k := kindOfValue(v)
	bits, _ := kindBits(k)
	return mkBV(asUint64Any(v), bits)
}

func asUint64Any(v value) uint64 {
	switch x := v.(type) {
	case int:
		return uint64(x)
	case int8:
		return uint64(x)
	case int16:
		return uint64(x)
	case int32:
		return uint64(x)
	case int64:
		return uint64(x)
	case uint:
		return uint64(x)
	case uint8:
		return uint64(x)
	case uint16:
		return uint64(x)
	case uint32:
		return uint64(x)
	case uint64:
		return x
	case uintptr:
		return uint64(x)
	}
	panic(fmt.Sprintf("gosym: asUint64Any %T", v))
}

// fromTerm converts a term back to a value of kind k (concrete when constant).
func fromTerm(t *Term, k types.BasicKind) value {
	if !t.isConst() {
		return &Sym{T: t, Kind: k}
	}
	return concreteOf(t.val, k)
}

func concreteOf(v uint64, k types.BasicKind) value {
	switch k {
	case types.Bool, types.UntypedBool:
		return v == 1
	case types.Int, types.UntypedInt:
		return int(int64(v))
	case types.Int8:
		return int8(v)
	case types.Int16:
		return int16(v)
	case types.Int32, types.UntypedRune:
		return int32(v)
	case types.Int64:
		return int64(v)
	case types.Uint:
		return uint(v)
	case types.Uint8:
		return uint8(v)
	case types.Uint16:
		return uint16(v)
	case types.Uint32:
		return uint32(v)
	case types.Uint64:
		return v
	case types.Uintptr:
		return uintptr(v)
	}
	panic(fmt.Sprintf("gosym: concreteOf kind %v", k))
}

func boolValue(t *Term) value { return fromTerm(t, types.Bool) }

// symBinop implements binop when at least one operand is symbolic.
func symBinop(op token.Token, x, y value) value {
	// shifts: operand kinds differ
	if op == token.SHL || op == token.SHR {
		kx := kindOfValue(x)
		bits, sgn := kindBits(kx)
		a := toTerm(x)
		ky := kindOfValue(y)
		ybits, ysgn := kindBits(ky)
		b := toTerm(y)
		if ysgn {
			// negative shift amounts panic in Go; checked by caller via symShiftCheck
		}
		var amt *Term
		if ybits == bits {
			amt = b
		} else if ybits < bits {
			amt = mkResize(b, bits, false)
		} else {
			// wider amount: saturate
			big := mkNot(mkCmp(opBvULt, b, mkBV(uint64(bits), ybits)))
			amt = mkIte(big, mkBV(uint64(bits), bits), mkResize(b, bits, false))
		}
		var r *Term
		if op == token.SHL {
			r = mkBin(opBvShl, a, amt)
		} else if sgn {
			r = mkBin(opBvAShr, a, amt)
		} else {
			r = mkBin(opBvLShr, a, amt)
		}
		return fromTerm(r, kx)
	}
	k := kindOfValue(x)
	if s, ok := y.(*Sym); ok && !isSym(x) {
		k = s.Kind
	}
	bits, sgn := kindBits(k)
	a, b := toTerm(x), toTerm(y)
	if bits == 0 {
		switch op {
		case token.EQL:
			return boolValue(mkEq(a, b))
		case token.NEQ:
			return boolValue(mkNot(mkEq(a, b)))
		case token.AND, token.LAND:
			return boolValue(mkAnd(a, b))
		case token.OR, token.LOR:
			return boolValue(mkOr(a, b))
		}
		panic("gosym: bool binop " + op.String())
	}
	ar := func(o opKind) value { return fromTerm(mkBin(o, a, b), k) }
	switch op {
	case token.ADD:
		return ar(opBvAdd)
	case token.SUB:
		return ar(opBvSub)
	case token.MUL:
		return ar(opBvMul)
	case token.QUO:
		if sgn {
			return ar(opBvSDiv)
		}
		return ar(opBvUDiv)
	case token.REM:
		if sgn {
			return ar(opBvSRem)
		}
		return ar(opBvURem)
	case token.AND:
		return ar(opBvAnd)
	case token.OR:
		return ar(opBvOr)
	case token.XOR:
		return ar(opBvXor)
	case token.AND_NOT:
		return fromTerm(mkBin(opBvAnd, a, mkUn(opBvNot, b)), k)
	case token.EQL:
		return boolValue(mkEq(a, b))
	case token.NEQ:
		return boolValue(mkNot(mkEq(a, b)))
	case token.LSS:
		if sgn {
			return boolValue(mkCmp(opBvSLt, a, b))
		}
		return boolValue(mkCmp(opBvULt, a, b))
	case token.LEQ:
		if sgn {
			return boolValue(mkCmp(opBvSLe, a, b))
		}
		return boolValue(mkCmp(opBvULe, a, b))
	case token.GTR:
		if sgn {
			return boolValue(mkCmp(opBvSLt, b, a))
		}
		return boolValue(mkCmp(opBvULt, b, a))
	case token.GEQ:
		if sgn {
			return boolValue(mkCmp(opBvSLe, b, a))
		}
		return boolValue(mkCmp(opBvULe, b, a))
	}
	panic("gosym: symBinop " + op.String())
}

func symUnop(op token.Token, x *Sym) value {
	switch op {
	case token.NOT:
		return boolValue(mkNot(x.T))
	case token.SUB:
		return fromTerm(mkUn(opBvNeg, x.T), x.Kind)
	case token.XOR:
		return fromTerm(mkUn(opBvNot, x.T), x.Kind)
	}
	panic("gosym: symUnop " + op.String())
}

// symConv converts a symbolic integer to another integer kind.
func symConv(dst types.Type, x *Sym) value {
	b, ok := dst.Underlying().(*types.Basic)
	if !ok {
		panic(inconclusive{"conversion of symbolic value to " + dst.String()})
	}
	if b.Info()&types.IsInteger == 0 {
		if b.Info()&types.IsBoolean != 0 {
			return x
		}
		panic(inconclusive{"conversion of symbolic integer to " + dst.String()})
	}
	_, sgn := kindBits(x.Kind)
	toBits, _ := kindBits(b.Kind())
	return fromTerm(mkResize(x.T, toBits, sgn), b.Kind())
}

// vIte builds an if-then-else over two scalar values.
func symIte(c value, a, b value) value {
	ct := toTerm(c)
	if ct.isConst() {
		if ct.val == 1 {
			return a
		}
		return b
	}
	k := kindOfValue(a)
	if s, ok := b.(*Sym); ok && !isSym(a) {
		k = s.Kind
	}
	return fromTerm(mkIte(ct, toTerm(a), toTerm(b)), k)
}

// ---- concretisation helpers used by the interpreter ----

// concInt makes an integer value concrete (forking over its feasible values).
func concInt(fr *frame, v value, what string) int64 {
	if s, ok := v.(*Sym); ok {
		bits, sgn := kindBits(s.Kind)
		u := fr.i.run.concretise(s.T, what)
		if sgn {
			return signExt(u, bits)
		}
		return int64(u)
	}
	return asInt64(v)
}

// concBool decides a possibly symbolic bool.
func concBool(fr *frame, v value) bool {
	switch c := v.(type) {
	case bool:
		return c
	case *Sym:
		return fr.i.run.branch(c.T)
	case opaque:
		panic(inconclusive{"branch on opaque value " + c.tag})
	}
	panic(fmt.Sprintf("gosym: concBool %T", v))
}

// concValue makes any scalar concrete (used when passing values to native code).
func concValue(fr *frame, v value, what string) value {
	s, ok := v.(*Sym)
	if !ok {
		return v
	}
	if s.Kind == types.Bool {
		return fr.i.run.branch(s.T)
	}
	u := fr.i.run.concretise(s.T, what)
	return concreteOf(u, s.Kind)
}

// concBytes makes every byte of a []byte value concrete.
func concBytes(fr *frame, bs []value, what string) []byte {
	out := make([]byte, len(bs))
	for i, b := range bs {
		out[i] = concValue(fr, b, what).(uint8)
	}
	return out
}

// eqTerm builds the equality term of two values of static type t.
func eqTerm(t types.Type, x, y value) *Term {
	switch x := x.(type) {
	case *Sym:
		return mkEq(x.T, toTerm(y))
	case structure:
		yv := y.(structure)
		tStruct := t.Underlying().(*types.Struct)
		var cs []*Term
		for i, n := 0, tStruct.NumFields(); i < n; i++ {
			if f := tStruct.Field(i); f.Name() != "_" {
				cs = append(cs, eqTerm(f.Type(), x[i], yv[i]))
			}
		}
		return mkAnd(cs...)
	case array:
		yv := y.(array)
		tElt := t.Underlying().(*types.Array).Elem()
		var cs []*Term
		for i := range x {
			cs = append(cs, eqTerm(tElt, x[i], yv[i]))
		}
		return mkAnd(cs...)
	case iface:
		yv := y.(iface)
		if !sameType(x.t, yv.t) {
			return termFalse
		}
		if x.t == nil {
			return termTrue
		}
		return eqTerm(x.t, x.v, yv.v)
	case symstr:
		return symstrEq(x, y)
	case string:
		if ys, ok := y.(symstr); ok {
			return symstrEq(ys, x)
		}
		return mkBool(x == y.(string))
	}
	if ys, ok := y.(*Sym); ok {
		return mkEq(toTerm(x), ys.T)
	}
	return mkBool(equals(t, x, y))
}

// hasSym reports whether a comparable value contains symbolic parts.
func hasSym(v value) bool {
	switch x := v.(type) {
	case *Sym, symstr:
		return true
	case structure:
		for _, e := range x {
			if hasSym(e) {
				return true
			}
		}
	case array:
		for _, e := range x {
			if hasSym(e) {
				return true
			}
		}
	case iface:
		return hasSym(x.v)
	}
	return false
}
