package interp

import "go/types"

func mustDeref(t types.Type) types.Type {
	if p, ok := t.Underlying().(*types.Pointer); ok {
		return p.Elem()
	}
	panic("mustDeref: not a pointer: " + t.String())
}

// goFunc is a function value implemented by the engine (e.g. a swapper).
type goFunc struct {
	f func(fr *frame, args []value) value
}
