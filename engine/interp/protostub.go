package interp

// proto.Marshal / proto.Unmarshal are modelled as a handle to a deep copy of
// the message with proto3 normalisation (empty bytes/slices/maps become nil).
// Assumed contract: protobuf round-trips these messages.

import (
	"go/types"
)

func deepCopy(t types.Type, v value) value { return deepCopyFr(nil, t, v) }

// deepCopyFr copies a message; with a frame, every pointer and map it reads is
// reported to the race detector as a read by the calling thread (Marshal and
// Clone read the live message).
func deepCopyFr(fr *frame, t types.Type, v value) value {
	switch ut := t.Underlying().(type) {
	case *types.Basic:
		return v
	case *types.Pointer:
		p, _ := v.(*value)
		if p == nil {
			return (*value)(nil)
		}
		if fr != nil {
			fr.i.sch.onRead(p, fr)
		}
		c := deepCopyFr(fr, ut.Elem(), *p)
		return &c
	case *types.Struct:
		s := v.(structure)
		out := make(structure, len(s))
		for i := range s {
			f := ut.Field(i)
			switch f.Name() {
			case "state", "sizeCache", "unknownFields":
				out[i] = zero(f.Type())
			default:
				out[i] = deepCopyFr(fr, f.Type(), s[i])
			}
		}
		return out
	case *types.Slice:
		s, _ := v.([]value)
		if len(s) == 0 {
			return []value(nil)
		}
		out := make([]value, len(s))
		for i := range s {
			out[i] = deepCopyFr(fr, ut.Elem(), s[i])
		}
		return out
	case *types.Array:
		a := v.(array)
		out := make(array, len(a))
		for i := range a {
			out[i] = deepCopyFr(fr, ut.Elem(), a[i])
		}
		return out
	case *types.Map:
		m, _ := v.(*omap)
		if fr != nil && m != nil {
			fr.i.sch.onMap(m, false, fr)
		}
		if m.len() == 0 {
			return (*omap)(nil)
		}
		out := makeMap(ut.Key(), 0).(*omap)
		for i, k := range m.keys {
			if m.live[i] {
				out.keys = append(out.keys, k)
				out.vals = append(out.vals, deepCopyFr(fr, ut.Elem(), m.vals[i]))
				out.live = append(out.live, true)
				out.n++
				if hasSym(k) {
					out.nsym++
				} else if indexable(k) {
					out.index[k] = len(out.keys) - 1
				}
			}
		}
		return out
	case *types.Interface:
		x := v.(iface)
		if x.t == nil {
			return x
		}
		return iface{t: x.t, v: deepCopyFr(fr, x.t, x.v)}
	}
	return v
}

func init() {
	marshal := func(fr *frame, args []value) value {
		m := args[len(args)-1].(iface)
		if m.t == nil {
			return tuple{[]value(nil), iface{}}
		}
		if p, ok := m.v.(*value); ok && p == nil {
			return tuple{[]value(nil), iface{}}
		}
		r := fr.i.run
		r.protoTab = append(r.protoTab, iface{t: m.t, v: deepCopyFr(fr, m.t, m.v)})
		idx := len(r.protoTab) - 1
		h := []value{uint8(0xfe), uint8(idx >> 16), uint8(idx >> 8), uint8(idx)}
		return tuple{h, iface{}}
	}
	unmarshal := func(fr *frame, args []value) value {
		buf := args[len(args)-2].([]value)
		m := args[len(args)-1].(iface)
		dst := m.v.(*value)
		elem := m.t.Underlying().(*types.Pointer).Elem()
		if len(buf) == 0 {
			*dst = zero(elem)
			return iface{}
		}
		if len(buf) != 4 || buf[0] != value(uint8(0xfe)) {
			return fr.i.errorValue("proto: cannot parse invalid wire-format data")
		}
		idx := int(buf[1].(uint8))<<16 | int(buf[2].(uint8))<<8 | int(buf[3].(uint8))
		r := fr.i.run
		if idx >= len(r.protoTab) {
			return fr.i.errorValue("proto: cannot parse invalid wire-format data")
		}
		src := r.protoTab[idx].(iface)
		if !types.Identical(src.t, m.t) {
			return fr.i.errorValue("proto: message type mismatch")
		}
		cp := deepCopy(src.t, src.v).(*value)
		*dst = *cp
		return iface{}
	}
	externals["google.golang.org/protobuf/proto.Marshal"] = marshal
	externals["google.golang.org/protobuf/proto.Unmarshal"] = unmarshal
	externals["github.com/golang/protobuf/proto.Marshal"] = marshal
	externals["github.com/golang/protobuf/proto.Unmarshal"] = unmarshal
	externals["google.golang.org/protobuf/proto.Clone"] = func(fr *frame, args []value) value {
		m := args[0].(iface)
		if m.t == nil {
			return m
		}
		return iface{t: m.t, v: deepCopyFr(fr, m.t, m.v)}
	}
}
