package interp

// proto.Marshal / proto.Unmarshal are modelled as a handle to a deep copy of
// the message with proto3 normalisation (empty bytes/slices/maps become nil).
// Assumed contract: protobuf round-trips these messages.

import (
	"go/types"
)

func deepCopy(t types.Type, v value) value { return deepCopyFr(nil, t, v) }

// deepCopyFr copies a message; with a frame, every pointer and map it reads is
// reported to the race detector as a read by the calling thread (Marshal and
// Clone read the live message).
func deepCopyFr(fr *frame, t types.Type, v value) value {
	switch ut := t.Underlying().(type) {
	case *types.Basic:
		return v
	case *types.Pointer:
		p, _ := v.(*value)
		if p == nil {
			return (*value)(nil)
		}
		if fr != nil {
			fr.i.sch.onRead(p, fr)
		}
		c := deepCopyFr(fr, ut.Elem(), *p)
		return &c
	case *types.Struct:
		s := v.(structure)
		out := make(structure, len(s))
		for i := range s {
			f := ut.Field(i)
			switch f.Name() {
			case "state", "sizeCache", "unknownFields":
				out[i] = zero(f.Type())
			default:
				out[i] = deepCopyFr(fr, f.Type(), s[i])
			}
		}
		return out
	case *types.Slice:
		s, _ := v.([]value)
		if len(s) == 0 {
			return []value(nil)
		}
		out := make([]value, len(s))
		for i := range s {
			out[i] = deepCopyFr(fr, ut.Elem(), s[i])
		}
		return out
	case *types.Array:
		a := v.(array)
		out := make(array, len(a))
		for i := range a {
			out[i] = deepCopyFr(fr, ut.Elem(), a[i])
		}
		return out
	case *types.Map:
		m, _ := v.(*omap)
		if fr != nil && m != nil {
			fr.i.sch.onMap(m, false, fr)
		}
		if m.len() == 0 {
			return (*omap)(nil)
		}
		out := makeMap(ut.Key(), 0).(*omap)
		for i, k := range m.keys {
			if m.live[i] {
				out.keys = append(out.keys, k)
				out.vals = append(out.vals, deepCopyFr(fr, ut.Elem(), m.vals[i]))
				out.live = append(out.live, true)
				out.n++
				if hasSym(k) {
					out.nsym++
				} else if indexable(k) {
					out.index[k] = len(out.keys) - 1
				}
			}
		}
		return out
	case *types.Interface:
		x := v.(iface)
		if x.t == nil {
			return x
		}
		return iface{t: x.t, v: deepCopyFr(fr, x.t, x.v)}
	}
	return v
}

// protoSize is a structural size of a message (number of populated leaves, capped): the encoded
// length of the model grows and shrinks with the content, as a real encoding does, so that code
// which overwrites an old encoding in place without truncating is not masked by a fixed length.
func protoSize(t types.Type, v value) int {
	n := 0
	switch ut := t.Underlying().(type) {
	case *types.Basic:
		switch x := v.(type) {
		case string:
			if x != "" {
				n = 1
			}
		case bool:
			if x {
				n = 1
			}
		case symstr, *Sym:
			n = 1
		default:
			if !isZeroScalar(v) {
				n = 1
			}
		}
	case *types.Pointer:
		if p, _ := v.(*value); p != nil {
			n = protoSize(ut.Elem(), *p)
		}
	case *types.Struct:
		s := v.(structure)
		for i := range s {
			f := ut.Field(i)
			switch f.Name() {
			case "state", "sizeCache", "unknownFields":
			default:
				n += protoSize(f.Type(), s[i])
			}
		}
	case *types.Slice:
		s, _ := v.([]value)
		if b, ok := ut.Elem().Underlying().(*types.Basic); ok && b.Kind() == types.Uint8 {
			if len(s) > 0 {
				n = 1
			}
			break
		}
		n = len(s)
		for i := range s {
			n += protoSize(ut.Elem(), s[i])
		}
	case *types.Array:
		a := v.(array)
		for i := range a {
			n += protoSize(ut.Elem(), a[i])
		}
	case *types.Map:
		if m, _ := v.(*omap); m != nil {
			for i := range m.keys {
				if m.live[i] {
					n += 1 + protoSize(ut.Elem(), m.vals[i])
				}
			}
		}
	case *types.Interface:
		if x := v.(iface); x.t != nil {
			n = 1 + protoSize(x.t, x.v)
		}
	}
	if n > 24 {
		n = 24
	}
	return n
}

func isZeroScalar(v value) bool {
	switch x := v.(type) {
	case int:
		return x == 0
	case int8:
		return x == 0
	case int16:
		return x == 0
	case int32:
		return x == 0
	case int64:
		return x == 0
	case uint:
		return x == 0
	case uint8:
		return x == 0
	case uint16:
		return x == 0
	case uint32:
		return x == 0
	case uint64:
		return x == 0
	case uintptr:
		return x == 0
	case float32:
		return x == 0
	case float64:
		return x == 0
	}
	return false
}

const protoPad = uint8(0xaa)

func init() {
	marshal := func(fr *frame, args []value) value {
		m := args[len(args)-1].(iface)
		if m.t == nil {
			return tuple{[]value(nil), iface{}}
		}
		if p, ok := m.v.(*value); ok && p == nil {
			return tuple{[]value(nil), iface{}}
		}
		r := fr.i.run
		r.protoTab = append(r.protoTab, iface{t: m.t, v: deepCopyFr(fr, m.t, m.v)})
		idx := len(r.protoTab) - 1
		h := []value{uint8(0xfe), uint8(idx >> 16), uint8(idx >> 8), uint8(idx)}
		for i, n := 0, protoSize(m.t, m.v); i < n; i++ {
			h = append(h, protoPad)
		}
		return tuple{h, iface{}}
	}
	unmarshal := func(fr *frame, args []value) value {
		buf := args[len(args)-2].([]value)
		m := args[len(args)-1].(iface)
		dst := m.v.(*value)
		elem := m.t.Underlying().(*types.Pointer).Elem()
		if len(buf) == 0 {
			*dst = zero(elem)
			return iface{}
		}
		if len(buf) < 4 || buf[0] != value(uint8(0xfe)) {
			return fr.i.errorValue("proto: cannot parse invalid wire-format data")
		}
		idx := int(buf[1].(uint8))<<16 | int(buf[2].(uint8))<<8 | int(buf[3].(uint8))
		r := fr.i.run
		if idx >= len(r.protoTab) {
			return fr.i.errorValue("proto: cannot parse invalid wire-format data")
		}
		src := r.protoTab[idx].(iface)
		if !types.Identical(src.t, m.t) {
			return fr.i.errorValue("proto: message type mismatch")
		}
		// exactly the bytes Marshal produced: no missing and no left-over tail
		if len(buf) != 4+protoSize(src.t, src.v) {
			return fr.i.errorValue("proto: cannot parse invalid wire-format data")
		}
		for _, b := range buf[4:] {
			if b != value(protoPad) {
				return fr.i.errorValue("proto: cannot parse invalid wire-format data")
			}
		}
		cp := deepCopy(src.t, src.v).(*value)
		*dst = *cp
		return iface{}
	}
	externals["google.golang.org/protobuf/proto.Marshal"] = marshal
	externals["google.golang.org/protobuf/proto.Unmarshal"] = unmarshal
	externals["github.com/golang/protobuf/proto.Marshal"] = marshal
	externals["github.com/golang/protobuf/proto.Unmarshal"] = unmarshal
	externals["google.golang.org/protobuf/proto.Clone"] = func(fr *frame, args []value) value {
		m := args[0].(iface)
		if m.t == nil {
			return m
		}
		return iface{t: m.t, v: deepCopyFr(fr, m.t, m.v)}
	}
}
