package interp

// Interpreter construction, lazy package initialisation, the harness API
// (vNondet*, vAssume, vAssert, ...), and engine intrinsics for library
// functions that have no Go body or whose contract is modelled.

import (
	"fmt"
	"go/token"
	"go/types"
	"math/bits"
	"os"
	"strings"

	"golang.org/x/tools/go/ssa"
)

const targetPathFragment = "fullstorydev/emulators"

// InitDeny lists packages whose initialisers are never run; reading one of
// their globals (other than those supplied below) is a machinery error.
var InitDeny = map[string]bool{
	"os": true, "syscall": true, "runtime": true, "net": true, "time": true, "reflect": true,
	"internal/poll": true, "internal/cpu": true, "internal/godebug": true, "log": true, "fmt": true,
	"sync": true, "sync/atomic": true, "unsafe": true, "internal/reflectlite": true,
}

func denyInit(path string) bool {
	if InitDeny[path] {
		return true
	}
	for _, p := range []string{"google.golang.org/grpc", "google.golang.org/protobuf", "github.com/golang/protobuf",
		"cloud.google.com/go", "google.golang.org/genproto", "google.golang.org/api", "net/", "crypto/", "runtime/",
		"github.com/syndtr/goleveldb", "go.opentelemetry.io", "golang.org/x/net", "internal/", "encoding/json", "mime",
		"github.com/bluele/gcache", "regexp", "rsc.io/binaryregexp", "math/rand", "compress/", "os/", "golang.org/x/"} {
		if strings.HasPrefix(path, p) {
			return true
		}
	}
	return false
}

func newInterpreter(prog *ssa.Program, w *worker) *interpreter {
	i := &interpreter{
		prog:      prog,
		globals:   make(map[*ssa.Global]*value),
		sizes:     &types.StdSizes{WordSize: 8, MaxAlign: 8},
		w:         w,
		initState: map[*ssa.Package]int{},
		stubs:     map[string]value{},
	}
	runtimePkg := prog.ImportedPackage("runtime")
	if runtimePkg == nil {
		panic("ssa.Program doesn't include runtime package")
	}
	i.runtimeErrorString = runtimePkg.Type("errorString").Object().Type()
	for _, pkg := range prog.AllPackages() {
		for _, m := range pkg.Members {
			if v, ok := m.(*ssa.Global); ok {
				cell := zero(mustDeref(v.Type()))
				i.globals[v] = &cell
			}
		}
	}
	// engine-supplied globals of denied packages
	i.supplyGlobals()
	// stub table from the harness package
	if w != nil && w.ex.fn.Pkg != nil {
		if f := w.ex.fn.Pkg.Func("vStubs"); f != nil {
			i.run = &Run{w: w, nseq: map[string]int{}, reached: map[string]bool{}, objs: map[string]value{}}
			i.sch = newSched(i, 1<<30)
			res := call(i, nil, token.NoPos, f, nil)
			if m, ok := res.(*omap); ok && m != nil {
				for k, key := range m.keys {
					if !m.live[k] {
						continue
					}
					i.stubs[key.(string)] = m.vals[k].(iface).v
				}
			}
			i.run = nil
		}
	}
	return i
}

// errorValue makes an error value with a fixed identity for sentinel errors.
func (i *interpreter) errorValue(msg string) value {
	return iface{t: i.runtimeErrorString, v: msg}
}

func (i *interpreter) supplyGlobals() {
	set := func(pkg, name string, v value) {
		p := i.prog.ImportedPackage(pkg)
		if p == nil {
			return
		}
		if g, ok := p.Members[name].(*ssa.Global); ok {
			*i.globals[g] = v
		}
	}
	set("io", "EOF", i.errorValue("EOF"))
	set("io", "ErrUnexpectedEOF", i.errorValue("unexpected EOF"))
	set("os", "ErrNotExist", i.errorValue("file does not exist"))
	set("io/fs", "ErrNotExist", i.errorValue("file does not exist"))
	set("context", "Canceled", i.errorValue("context canceled"))
	for name, msg := range fsSentinels {
		set("io/fs", name, i.errorValue(msg))
		set("os", name, i.errorValue(msg))
	}
	set("io/fs", "SkipDir", i.errorValue("skip this directory"))
	set("io/fs", "SkipAll", i.errorValue("skip everything and stop the walk"))
	set("path/filepath", "SkipDir", i.errorValue("skip this directory"))
	set("path/filepath", "SkipAll", i.errorValue("skip everything and stop the walk"))
	set("io", "ErrShortWrite", i.errorValue("short write"))
	set("io", "ErrShortBuffer", i.errorValue("short buffer"))
	set("io", "ErrClosedPipe", i.errorValue("io: read/write on closed pipe"))
	set("io", "ErrNoProgress", i.errorValue("multiple Read calls return no data or error"))
	set("github.com/syndtr/goleveldb/leveldb", "ErrNotFound", i.errorValue("leveldb: not found"))
	set("github.com/syndtr/goleveldb/leveldb/errors", "ErrNotFound", i.errorValue("leveldb: not found"))
}

var fsSentinels = map[string]string{
	"ErrInvalid": "invalid argument", "ErrPermission": "permission denied", "ErrExist": "file already exists", "ErrClosed": "file already closed",
}

func init() {
	for name := range fsSentinels {
		suppliedGlobal["io/fs."+name] = true
		suppliedGlobal["os."+name] = true
	}
	for _, g := range []string{"io/fs.SkipDir", "io/fs.SkipAll", "path/filepath.SkipDir", "path/filepath.SkipAll",
		"io.ErrShortWrite", "io.ErrShortBuffer", "io.ErrClosedPipe", "io.ErrNoProgress"} {
		suppliedGlobal[g] = true
	}
}

var suppliedGlobal = map[string]bool{
	"io.EOF": true, "io.ErrUnexpectedEOF": true, "os.ErrNotExist": true, "io/fs.ErrNotExist": true, "context.Canceled": true,
	"github.com/syndtr/goleveldb/leveldb.ErrNotFound": true, "github.com/syndtr/goleveldb/leveldb/errors.ErrNotFound": true,
}

// ensureInit runs pkg's initialiser on first access to one of its globals.
func (i *interpreter) ensureInit(pkg *ssa.Package, g *ssa.Global) {
	path := pkg.Pkg.Path()
	if suppliedGlobal[path+"."+g.Name()] {
		return
	}
	if path == "io" || path == "io/fs" || path == "context" {
		// only the sentinel errors supplied above are supported from these; anything else would
		// silently read as a zero value, so it is refused
		panic(inconclusive{"global " + path + "." + g.Name() + " is not supplied by the executor"})
	}
	if denyInit(path) {
		if os.Getenv("GOSYM_DEBUG_INIT") != "" {
			fmt.Fprintf(os.Stderr, "gosym: read of global %s.%s from uninitialised package\n", path, g.Name())
		}
		if allowUninit[path+"."+g.Name()] {
			return
		}
		panic(inconclusive{"global " + path + "." + g.Name() + " of a package whose init is not run"})
	}
	i.initState[pkg] = 1
	init := pkg.Func("init")
	if init != nil {
		// run with a scratch Run if none is active (interpreter construction)
		if i.run == nil {
			i.run = &Run{w: i.w, nseq: map[string]int{}, reached: map[string]bool{}, objs: map[string]value{}}
			i.sch = newSched(i, 1<<30)
			defer func() { i.run = nil }()
		}
		saved := i.run.steps
		// package initialisation happens before every goroutine: not subject to race detection
		wasOn := i.sch.raceOn
		i.sch.raceOn = false
		call(i, nil, token.NoPos, init, nil)
		i.sch.raceOn = wasOn
		i.run.steps = saved
	}
	i.initState[pkg] = 2
}

// globals of denied packages that may be read as zero values
var allowUninit = map[string]bool{
	"sync.expunged": true,
	"github.com/syndtr/goleveldb/leveldb/comparer.DefaultComparer": true,
}

// ---- special dispatch: externals, harness API, stubs ----

func dispatchSpecial(i *interpreter, fr *frame, fn *ssa.Function, args []value) (value, bool) {
	name := fn.String()
	if st, ok := i.stubs[name]; ok {
		// a stub may call the function it replaces
		if sf, isFn := st.(*ssa.Function); !isFn || fr.caller == nil || fr.caller.fn != sf {
			return call(i, fr.caller, token.NoPos, st, args), true
		}
	}
	if ext := externals[name]; ext != nil {
		return ext(fr, args), true
	}
	if h := harnessAPI[fn.Name()]; h != nil && fn.Pkg != nil && fn.Signature.Recv() == nil && strings.Contains(fn.Pkg.Pkg.Path(), targetPathFragment) {
		{
			return h(fr, args), true
		}
	}
	// generic instantiations carry their type arguments in the name
	if o := fn.Origin(); o != nil {
		if ext := externals[o.String()]; ext != nil {
			return ext(fr, args), true
		}
	}
	return nil, false
}

var harnessAPI = map[string]externalFn{}

func nondet(kind types.BasicKind) externalFn {
	return func(fr *frame, args []value) value {
		bits, _ := kindBits(kind)
		t := fr.i.run.fresh(args[0].(string), bits)
		return &Sym{T: t, Kind: kind}
	}
}

func init() {
	h := harnessAPI
	h["vNondetInt64"] = nondet(types.Int64)
	h["vNondetInt32"] = nondet(types.Int32)
	h["vNondetInt"] = nondet(types.Int)
	h["vNondetUint8"] = nondet(types.Uint8)
	h["vNondetByte"] = nondet(types.Uint8)
	h["vNondetUint64"] = nondet(types.Uint64)
	h["vNondetBool"] = func(fr *frame, args []value) value {
		t := fr.i.run.fresh(args[0].(string), 0)
		return &Sym{T: t, Kind: types.Bool}
	}
	h["vNondetBytes"] = func(fr *frame, args []value) value {
		n := int(concInt(fr, args[1], "vNondetBytes length"))
		out := make([]value, n)
		for k := range out {
			out[k] = &Sym{T: fr.i.run.fresh(args[0].(string), 8), Kind: types.Uint8}
		}
		return out
	}
	h["vChoice"] = func(fr *frame, args []value) value {
		r := fr.i.run
		lo, hi := int(asInt64(args[1])), int(asInt64(args[2]))
		if hi < lo {
			panic(pathAbort{"empty choice"})
		}
		k := r.decideN("choice", hi-lo+1)
		// record as an input so that replay sees it
		name := args[0].(string)
		n := r.nseq[name]
		r.nseq[name] = n + 1
		r.inputs = append(r.inputs, InputRec{Name: fmt.Sprintf("%s#%d", name, n), Bits: 64, term: mkBV(uint64(lo+k), 64)})
		return lo + k
	}
	h["vAssume"] = func(fr *frame, args []value) value {
		fr.i.run.assume(toTerm(args[0]))
		return nil
	}
	h["vAssert"] = func(fr *frame, args []value) value {
		if _, ok := args[0].(opaque); ok {
			panic(inconclusive{"assert on opaque"})
		}
		fr.i.run.assert(toTerm(args[0]), args[1].(string))
		return nil
	}
	h["vAnd"] = func(fr *frame, args []value) value { return boolValue(mkAnd(toTerm(args[0]), toTerm(args[1]))) }
	h["vOr"] = func(fr *frame, args []value) value { return boolValue(mkOr(toTerm(args[0]), toTerm(args[1]))) }
	h["vNot"] = func(fr *frame, args []value) value { return boolValue(mkNot(toTerm(args[0]))) }
	h["vImplies"] = func(fr *frame, args []value) value {
		return boolValue(mkImplies(toTerm(args[0]), toTerm(args[1])))
	}
	h["vIteInt64"] = func(fr *frame, args []value) value { return symIte(args[0], args[1], args[2]) }
	h["vIteBool"] = func(fr *frame, args []value) value { return symIte(args[0], args[1], args[2]) }
	h["vIteByte"] = func(fr *frame, args []value) value { return symIte(args[0], args[1], args[2]) }
	h["vBytesEq"] = func(fr *frame, args []value) value {
		return boolValue(bytesEqTerm(args[0].([]value), args[1].([]value)))
	}
	h["vBytesCmp"] = func(fr *frame, args []value) value {
		return fromTerm(bytesCmpTerm(args[0].([]value), args[1].([]value)), types.Int)
	}
	h["vObserve"] = func(fr *frame, args []value) value {
		r := fr.i.run
		if !hasSym(args[1]) || isSym(args[1]) {
			r.obs = append(r.obs, ObsRec{Name: args[0].(string), Term: toTerm(args[1])})
		}
		return nil
	}
	h["vReach"] = func(fr *frame, args []value) value {
		fr.i.run.reached[args[0].(string)] = true
		return nil
	}
	h["vTag"] = func(fr *frame, args []value) value {
		fr.i.run.tags = append(fr.i.run.tags, args[0].(string))
		return nil
	}
	h["vYield"] = func(fr *frame, args []value) value {
		fr.i.sch.yield(nil, "vYield")
		return nil
	}
	h["verifYield"] = func(fr *frame, args []value) value {
		fr.i.sch.yield(nil, "verifYield")
		return nil
	}
	h["vJoin"] = func(fr *frame, args []value) value {
		fr.i.sch.join()
		return nil
	}
	h["vGo"] = func(fr *frame, args []value) value {
		fr.i.sch.spawn(token.NoPos, args[0], nil)
		return nil
	}
	h["vBound"] = func(fr *frame, args []value) value {
		ex := fr.i.w.ex
		v := int(asInt64(args[1]))
		if ex.cfg.Tier == "thorough" {
			v = int(asInt64(args[2]))
		}
		ex.mu.Lock()
		if ex.res.Bounds == nil {
			ex.res.Bounds = map[string]int{}
		}
		ex.res.Bounds[args[0].(string)] = v
		ex.mu.Unlock()
		return v
	}
	h["vSymbolic"] = func(fr *frame, args []value) value { return true }
	h["vIsConcrete"] = func(fr *frame, args []value) value { return !hasSym(args[0]) }
	h["vConcretizeInt"] = func(fr *frame, args []value) value {
		return int(concInt(fr, args[0], "vConcretizeInt"))
	}
	h["vConcretizeBytes"] = func(fr *frame, args []value) value {
		bs := args[0].([]value)
		if bs == nil {
			return bs
		}
		out := make([]value, len(bs))
		for k, b := range bs {
			out[k] = concValue(fr, b, "vConcretizeBytes")
		}
		return out
	}
	h["vInlineGo"] = func(fr *frame, args []value) value {
		fr.i.sch.inlineGo = args[0].(bool)
		return nil
	}
	h["vSetClock"] = func(fr *frame, args []value) value {
		fr.i.run.clockMode = 2
		fr.i.run.clockFixed = args[0]
		return nil
	}
	h["vClockSymbolic"] = func(fr *frame, args []value) value { fr.i.run.clockMode = 1; return nil }
	h["vFatal"] = func(fr *frame, args []value) value {
		panic(engineError{"harness: " + args[0].(string)})
	}
	h["vThreadID"] = func(fr *frame, args []value) value { return fr.i.sch.cur.id }
	h["vRaceOff"] = func(fr *frame, args []value) value { fr.i.sch.raceOn = false; return nil }
	h["vRaceOn"] = func(fr *frame, args []value) value {
		if fr.i.sch.nthreads > 1 {
			fr.i.sch.raceOn = true
		}
		return nil
	}
}

func init() {
	ext := func(name string, f externalFn) { externals[name] = f }

	// ---- internal/bytealg (assembly in the real runtime) ----
	ext("internal/bytealg.Compare", func(fr *frame, args []value) value {
		return fromTerm(bytesCmpTerm(args[0].([]value), args[1].([]value)), types.Int)
	})
	ext("bytes.Compare", func(fr *frame, args []value) value {
		return fromTerm(bytesCmpTerm(args[0].([]value), args[1].([]value)), types.Int)
	})
	ext("internal/bytealg.Equal", func(fr *frame, args []value) value {
		return boolValue(bytesEqTerm(args[0].([]value), args[1].([]value)))
	})
	ext("bytes.Equal", func(fr *frame, args []value) value {
		return boolValue(bytesEqTerm(args[0].([]value), args[1].([]value)))
	})
	ext("strings.Compare", func(fr *frame, args []value) value {
		return fromTerm(bytesCmpTerm(strBytes(args[0]), strBytes(args[1])), types.Int)
	})
	indexByte := func(fr *frame, hay []value, c value) value {
		for k, b := range hay {
			if concBool(fr, boolValue(mkEq(toTerm(b), toTerm(c)))) {
				return k
			}
		}
		return -1
	}
	ext("internal/bytealg.IndexByte", func(fr *frame, args []value) value {
		return indexByte(fr, args[0].([]value), args[1])
	})
	ext("internal/bytealg.IndexByteString", func(fr *frame, args []value) value {
		return indexByte(fr, strBytes(args[0]), args[1])
	})
	ext("bytes.IndexByte", func(fr *frame, args []value) value {
		return indexByte(fr, args[0].([]value), args[1])
	})
	ext("strings.IndexByte", func(fr *frame, args []value) value {
		return indexByte(fr, strBytes(args[0]), args[1])
	})
	index := func(fr *frame, hay, needle []value) value {
		for k := 0; k+len(needle) <= len(hay); k++ {
			if concBool(fr, boolValue(bytesEqTerm(hay[k:k+len(needle)], needle))) {
				return k
			}
		}
		return -1
	}
	ext("internal/bytealg.Index", func(fr *frame, args []value) value {
		return index(fr, args[0].([]value), args[1].([]value))
	})
	ext("internal/bytealg.IndexString", func(fr *frame, args []value) value {
		return index(fr, strBytes(args[0]), strBytes(args[1]))
	})
	ext("strings.Index", func(fr *frame, args []value) value {
		return index(fr, strBytes(args[0]), strBytes(args[1]))
	})
	ext("bytes.Index", func(fr *frame, args []value) value {
		return index(fr, args[0].([]value), args[1].([]value))
	})
	count := func(fr *frame, hay []value, c value) value {
		n := 0
		for _, b := range hay {
			if concBool(fr, boolValue(mkEq(toTerm(b), toTerm(c)))) {
				n++
			}
		}
		return n
	}
	ext("internal/bytealg.Count", func(fr *frame, args []value) value { return count(fr, args[0].([]value), args[1]) })
	ext("internal/bytealg.CountString", func(fr *frame, args []value) value { return count(fr, strBytes(args[0]), args[1]) })
	ext("internal/bytealg.MakeNoZero", func(fr *frame, args []value) value {
		n := int(concInt(fr, args[0], "MakeNoZero"))
		out := make([]value, n)
		for k := range out {
			out[k] = uint8(0)
		}
		return out
	})
	ext("internal/stringslite.Index", func(fr *frame, args []value) value {
		return index(fr, strBytes(args[0]), strBytes(args[1]))
	})
	ext("internal/stringslite.IndexByte", func(fr *frame, args []value) value {
		return indexByte(fr, strBytes(args[0]), args[1])
	})
	ext("internal/stringslite.HasPrefix", func(fr *frame, args []value) value {
		s, p := strBytes(args[0]), strBytes(args[1])
		if len(s) < len(p) {
			return false
		}
		return boolValue(bytesEqTerm(s[:len(p)], p))
	})
	ext("internal/stringslite.HasSuffix", func(fr *frame, args []value) value {
		s, p := strBytes(args[0]), strBytes(args[1])
		if len(s) < len(p) {
			return false
		}
		return boolValue(bytesEqTerm(s[len(s)-len(p):], p))
	})
	ext("strings.HasPrefix", externals["internal/stringslite.HasPrefix"])
	ext("strings.HasSuffix", externals["internal/stringslite.HasSuffix"])
	ext("bytes.HasPrefix", func(fr *frame, args []value) value {
		s, p := args[0].([]value), args[1].([]value)
		if len(s) < len(p) {
			return false
		}
		return boolValue(bytesEqTerm(s[:len(p)], p))
	})

	// ---- math/bits ----
	ext("math/bits.Len", func(fr *frame, args []value) value { return bits.Len(args[0].(uint)) })
	ext("math/bits.Len64", func(fr *frame, args []value) value { return bits.Len64(args[0].(uint64)) })
	ext("math/bits.TrailingZeros", func(fr *frame, args []value) value { return bits.TrailingZeros(args[0].(uint)) })
	ext("math/bits.TrailingZeros64", func(fr *frame, args []value) value { return bits.TrailingZeros64(args[0].(uint64)) })

	// ---- sort.Slice: reflection replaced, the real pdqsort_func runs ----
	ext("sort.Slice", func(fr *frame, args []value) value {
		xs := args[0].(iface).v.([]value)
		swap := &goFunc{f: func(fr *frame, a []value) value {
			p, q := asInt64(a[0]), asInt64(a[1])
			xs[p], xs[q] = xs[q], xs[p]
			return nil
		}}
		pd := fr.i.prog.ImportedPackage("sort").Func("pdqsort_func")
		n := len(xs)
		call(fr.i, fr.caller, token.NoPos, pd, []value{structure{args[1], swap}, 0, n, bits.Len(uint(n))})
		return nil
	})
	ext("sort.SliceStable", func(fr *frame, args []value) value {
		xs := args[0].(iface).v.([]value)
		swap := &goFunc{f: func(fr *frame, a []value) value {
			p, q := asInt64(a[0]), asInt64(a[1])
			xs[p], xs[q] = xs[q], xs[p]
			return nil
		}}
		pd := fr.i.prog.ImportedPackage("sort").Func("stable_func")
		call(fr.i, fr.caller, token.NoPos, pd, []value{structure{args[1], swap}, len(xs)})
		return nil
	})

	// ---- logging / formatting: content is opaque ----
	nop := func(fr *frame, args []value) value { return nil }
	for _, n := range []string{"log.Printf", "log.Println", "log.Print", "(*log.Logger).Printf", "(*log.Logger).Println", "(*log.Logger).Print"} {
		ext(n, nop)
	}
	ext("fmt.Sprintf", func(fr *frame, args []value) value {
		// non-empty when the format has literal text outside its verbs
		f, _ := args[0].(string)
		lit := false
		for k := 0; k < len(f); k++ {
			if f[k] == '%' {
				k++
				for k < len(f) && (f[k] == '+' || f[k] == '-' || f[k] == '#' || f[k] == ' ' || f[k] == '.' || (f[k] >= '0' && f[k] <= '9')) {
					k++
				}
				if k < len(f) && f[k] == '%' {
					lit = true
				}
				continue
			}
			lit = true
		}
		return opaque{tag: "fmt.Sprintf", nonEmpty: lit}
	})
	ext("fmt.Sprint", func(fr *frame, args []value) value { return opaque{tag: "fmt.Sprint"} })
	ext("fmt.Sprintln", func(fr *frame, args []value) value { return opaque{tag: "fmt.Sprintln", nonEmpty: true} })
	ext("errors.New", func(fr *frame, args []value) value {
		cell := value(structure{args[0]})
		p := fr.i.prog.ImportedPackage("errors")
		return iface{t: types.NewPointer(p.Type("errorString").Type()), v: &cell}
	})
	ext("runtime.Gosched", func(fr *frame, args []value) value { fr.i.sch.yield(nil, "Gosched"); return nil })
	ext("runtime.KeepAlive", nop)
	ext("runtime.SetFinalizer", nop)
	ext("time.Sleep", func(fr *frame, args []value) value { fr.i.sch.yield(nil, "Sleep"); return nil })

	// ---- time: a per-path clock ----
	ext("time.Now", func(fr *frame, args []value) value {
		tm := fr.i.prog.ImportedPackage("time").Type("Time").Type()
		s := zero(tm).(structure)
		s[1] = fr.i.run.nextClock() // ext field carries nanoseconds since the epoch
		return s
	})
	ext("(time.Time).UnixNano", func(fr *frame, args []value) value { return args[0].(structure)[1] })
	ext("(time.Time).UTC", func(fr *frame, args []value) value { return args[0] })
	ext("(time.Time).IsZero", func(fr *frame, args []value) value {
		return binop(token.EQL, types.Typ[types.Int64], args[0].(structure)[1], int64(0))
	})

	// ---- unsafe string helpers used by strings.Builder ----
	ext("(*strings.Builder).String", func(fr *frame, args []value) value {
		b := (*args[0].(*value)).(structure)
		return mkString(b[1].([]value))
	})
	ext("(*strings.Builder).copyCheck", nop)
	ext("strings.Clone", func(fr *frame, args []value) value { return args[0] })
}

// nextClock returns the next reading of the wall clock in nanoseconds.
func (r *Run) nextClock() value {
	if r.clockMode == 2 {
		return r.clockFixed
	}
	if r.clockMode == 0 {
		r.clock += 1_000_003
		return r.clock
	}
	t := r.fresh("wallclock", 64)
	zero := mkBV(0, 64)
	if r.clockSym == nil {
		r.assume(mkCmp(opBvSLt, zero, t))
	} else {
		r.assume(mkCmp(opBvSLt, r.clockSym, t))
	}
	// keep clear of overflow in later arithmetic
	r.assume(mkCmp(opBvSLt, t, mkBV(uint64(1)<<62, 64)))
	r.clockSym = t
	return &Sym{T: t, Kind: types.Int64}
}
