package interp

// Cooperative threads under a baton, modelled synchronisation objects,
// schedule decisions on the same trail as data decisions, and a
// happens-before race detector.

import (
	"fmt"
	"go/token"
	"go/types"
	"runtime"
	"strings"
	"sync"

	"golang.org/x/tools/go/ssa"
)

type vclock []int

func (a vclock) join(b vclock) vclock {
	if len(b) > len(a) {
		n := make(vclock, len(b))
		copy(n, a)
		a = n
	}
	for i, v := range b {
		if v > a[i] {
			a[i] = v
		}
	}
	return a
}

func (a vclock) get(i int) int {
	if i < len(a) {
		return a[i]
	}
	return 0
}

func (a vclock) clone() vclock { return append(vclock{}, a...) }

type mchan struct {
	buf    []value
	bufVC  []vclock
	cap    int
	closed bool
	vc     vclock // close/recv hand-off
	elem   types.Type
}

type thread struct {
	id     int
	resume chan struct{}
	done   bool
	ready  func() bool // nil = runnable
	vc     vclock
	what   string        // description of pending op (diagnostics)
	objs   []interface{} // sync objects the pending operation touches (nil = unknown: dependent with everything)
}

type shadowWord struct {
	wTid, wClk int
	wSite      string
	r          vclock
	rSite      []string
}

type syncObj struct {
	locked  bool
	wpend   bool // RWMutex: a writer holds the writer mutex (announced, waiting for readers, or holding the lock)
	readers int
	count   int // waitgroup counter
	done    bool
	vc      vclock
	rvc     vclock
}

type scheduler struct {
	i        *interpreter
	threads  []*thread
	cur      *thread
	abort    bool
	preempt  int
	maxPre   int
	history  []int
	nthreads int
	wg       sync.WaitGroup
	objs     map[*value]*syncObj
	shadow   map[*value]*shadowWord
	raceOn   bool
	races    map[string]bool
	Deadlock bool
	sleep    map[int]bool // sleep set (thread ids) at the current schedule point
	Pruned   bool
	inlineGo bool
}

func newSched(i *interpreter, maxPre int) *scheduler {
	s := &scheduler{i: i, maxPre: maxPre, objs: map[*value]*syncObj{}, shadow: map[*value]*shadowWord{}, races: map[string]bool{}, sleep: map[int]bool{}}
	t0 := &thread{id: 0, resume: make(chan struct{}, 1), vc: vclock{1}}
	s.threads = []*thread{t0}
	s.cur = t0
	s.nthreads = 1
	return s
}

func (s *scheduler) obj(p *value) *syncObj {
	o := s.objs[p]
	if o == nil {
		o = &syncObj{}
		s.objs[p] = o
	}
	return o
}

// acquire/release maintain happens-before through a sync object.
func (s *scheduler) acquire(o *syncObj) { s.cur.vc = s.cur.vc.join(o.vc) }
func (s *scheduler) release(o *syncObj) {
	o.vc = o.vc.clone().join(s.cur.vc)
	s.tick()
}
func (s *scheduler) tick() {
	t := s.cur
	for len(t.vc) <= t.id {
		t.vc = append(t.vc, 0)
	}
	t.vc[t.id]++
}

// yield: the current thread reaches a schedule point; it may continue once ready() holds.
func (s *scheduler) yield(ready func() bool, what string, objs ...interface{}) {
	if s.nthreads == 1 {
		if ready != nil && !ready() {
			s.deadlock("main thread blocked forever on " + what)
		}
		return
	}
	me := s.cur
	me.ready = ready
	me.what = what
	me.objs = objs
	s.pick(me)
	me.ready = nil
}

// independent reports whether the pending operations of two threads commute:
// both are known and touch disjoint sets of synchronisation objects.
func independent(a, b *thread) bool {
	if len(a.objs) == 0 || len(b.objs) == 0 {
		return false
	}
	for _, x := range a.objs {
		for _, y := range b.objs {
			sx, xs := x.(sharedAccess)
			sy, ys := y.(sharedAccess)
			if xs && ys {
				continue // two shared (read-lock / atomic load) accesses commute
			}
			ox, oy := x, y
			if xs {
				ox = sx.o
			}
			if ys {
				oy = sy.o
			}
			if ox == oy {
				return false
			}
		}
	}
	return true
}

// sharedAccess marks an operation that commutes with other shared operations on
// the same object (RLock/RUnlock among readers, atomic loads).
type sharedAccess struct{ o interface{} }

func (s *scheduler) deadlock(msg string) {
	s.Deadlock = true
	r := s.i.run
	desc := msg
	for _, t := range s.threads {
		if !t.done && t.ready != nil {
			desc += fmt.Sprintf("; thread %d waits on %s", t.id, t.what)
		}
	}
	r.violation("deadlock", "deadlock", nil)
	r.viols[len(r.viols)-1].Msg = desc
	s.abortPath("")
}

// abortPath ends the path from whatever thread is running.
func (s *scheduler) abortPath(outcome string) {
	r := s.i.run
	if outcome != "" && r.aborted == "" {
		r.aborted = outcome
	}
	s.abort = true
	panic(pathAbort{"abort"})
}

// pick chooses the next thread to run at a schedule point of thread me.
func (s *scheduler) pick(me *thread) {
	var en []*thread
	if !me.done && (me.ready == nil || me.ready()) {
		en = append(en, me)
	}
	for _, t := range s.threads {
		if t == me || t.done {
			continue
		}
		if t.ready == nil || t.ready() {
			en = append(en, t)
		}
	}
	if len(en) == 0 {
		live := false
		for _, t := range s.threads {
			if !t.done {
				live = true
			}
		}
		if !live {
			return // everything finished (me is done too)
		}
		if me.done {
			// a finished thread cannot report; hand the problem to thread 0
			s.Deadlock = true
			r := s.i.run
			r.violation("deadlock", "deadlock", nil)
			desc := ""
			for _, t := range s.threads {
				if !t.done && t.ready != nil {
					desc += fmt.Sprintf("thread %d waits on %s; ", t.id, t.what)
				}
			}
			r.viols[len(r.viols)-1].Msg = desc
			s.abort = true
			s.threads[0].resume <- struct{}{}
			return
		}
		s.deadlock("no enabled thread")
	}
	// sleep sets: a thread whose pending operation was already explored first at an
	// ancestor point, and has not been disturbed by a dependent operation since, need
	// not be scheduled here (every Mazurkiewicz trace keeps a representative).
	var cand []*thread
	bounded := s.maxPre < 1<<30 // sleep sets are not combined with preemption bounding (would lose schedules within the bound)
	for _, t := range en {
		if bounded || !s.sleep[t.id] {
			cand = append(cand, t)
		}
	}
	if en[0] == me && s.preempt >= s.maxPre {
		cand = []*thread{me}
	}
	if len(cand) == 0 {
		s.Pruned = true
		s.abortPath("")
	}
	k := s.i.run.decideN("sched", len(cand))
	next := cand[k]
	if en[0] == me && next != me {
		s.preempt++
	}
	ns := map[int]bool{}
	if bounded {
		s.sleep = ns
	}
	for id := range s.sleep {
		if z := s.threads[id]; !z.done && independent(z, next) {
			ns[id] = true
		}
	}
	for _, z := range cand[:k] {
		if !bounded && independent(z, next) {
			ns[z.id] = true
		}
	}
	s.sleep = ns
	s.history = append(s.history, next.id)
	if next == me {
		return
	}
	s.cur = next
	next.resume <- struct{}{}
	if !me.done {
		<-me.resume
		if s.abort {
			panic(pathAbort{"abort"})
		}
		s.cur = me
	}
}

// spawn starts a new interpreter thread for a go statement.
func (s *scheduler) spawn(pos token.Pos, fn value, args []value) {
	parent := s.cur
	t := &thread{id: len(s.threads), resume: make(chan struct{}, 1)}
	// until its first synchronisation operation a new thread only runs local code:
	// its start commutes with every other thread's operation (data races are
	// reported separately by the happens-before detector)
	t.objs = []interface{}{t}
	t.what = "start"
	t.vc = parent.vc.clone()
	for len(t.vc) <= t.id {
		t.vc = append(t.vc, 0)
	}
	t.vc[t.id] = 1
	s.tick()
	s.threads = append(s.threads, t)
	s.nthreads++
	if s.nthreads > 8 {
		panic(inconclusive{"too many threads"})
	}
	s.raceOn = true
	s.wg.Add(1)
	go func() {
		defer s.wg.Done()
		<-t.resume
		if s.abort {
			t.done = true
			return
		}
		s.cur = t
		defer func() {
			p := recover()
			t.done = true
			if s.abort {
				// path is being torn down; make sure thread 0 is awake
				select {
				case s.threads[0].resume <- struct{}{}:
				default:
				}
				return
			}
			if p != nil {
				r := s.i.run
				out := ""
				switch p := p.(type) {
				case pathAbort:
				case inconclusive:
					out = "inconclusive:" + p.why
				case engineError:
					out = "engine:" + p.why
				case targetPanic:
					r.violation("panic", "goroutine: "+shorten(toString(p.v)), nil)
				case runtime.Error:
					r.violation("panic", "goroutine runtime error: "+shorten(p.Error()), nil)
				case string:
					r.violation("panic", "goroutine: "+shorten(p), nil)
				default:
					out = fmt.Sprintf("engine:unexpected panic in thread %T %v", p, p)
				}
				if out != "" && r.aborted == "" {
					r.aborted = out
				}
				s.abort = true
				select {
				case s.threads[0].resume <- struct{}{}:
				default:
				}
				return
			}
			// normal end of thread: hand over the baton
			func() {
				defer func() {
					if p := recover(); p != nil {
						if !isEnginePanic(p) {
							panic(p)
						}
						if ie, ok := p.(inconclusive); ok && s.i.run.aborted == "" {
							s.i.run.aborted = "inconclusive:" + ie.why
						}
						if ee, ok := p.(engineError); ok && s.i.run.aborted == "" {
							s.i.run.aborted = "engine:" + ee.why
						}
						s.abort = true
						select {
						case s.threads[0].resume <- struct{}{}:
						default:
						}
					}
				}()
				s.pick(t)
			}()
		}()
		call(s.i, nil, pos, fn, args)
	}()
}

// killAll tears down every remaining thread at the end of a path.
func (s *scheduler) killAll() {
	s.abort = true
	for _, t := range s.threads[1:] {
		select {
		case t.resume <- struct{}{}:
		default:
		}
	}
	s.wg.Wait()
}

// join blocks the caller until all other threads are done.
func (s *scheduler) join() {
	me := s.cur
	s.yield(func() bool {
		for _, t := range s.threads {
			if t != me && !t.done {
				return false
			}
		}
		return true
	}, "join")
	for _, t := range s.threads {
		if t != me {
			me.vc = me.vc.join(t.vc)
		}
	}
}

// ---- race detector ----

func (s *scheduler) site(fr *frame) string {
	if fr == nil || fr.fn == nil {
		return "?"
	}
	return fr.fn.String()
}

func (s *scheduler) onRead(p *value, fr *frame) {
	if !s.raceOn || p == nil {
		return
	}
	t := s.cur
	w := s.shadow[p]
	if w == nil {
		w = &shadowWord{wTid: -1}
		s.shadow[p] = w
	}
	if w.wTid >= 0 && w.wTid != t.id && w.wClk > t.vc.get(w.wTid) {
		s.race("read", s.site(fr), "write", w.wSite)
	}
	for len(w.r) <= t.id {
		w.r = append(w.r, 0)
		w.rSite = append(w.rSite, "")
	}
	w.r[t.id] = t.vc.get(t.id)
	w.rSite[t.id] = s.site(fr)
}

func (s *scheduler) onWrite(p *value, fr *frame) {
	if !s.raceOn || p == nil {
		return
	}
	t := s.cur
	w := s.shadow[p]
	if w == nil {
		w = &shadowWord{wTid: -1}
		s.shadow[p] = w
	}
	if w.wTid >= 0 && w.wTid != t.id && w.wClk > t.vc.get(w.wTid) {
		s.race("write", s.site(fr), "write", w.wSite)
	}
	for u, c := range w.r {
		if u != t.id && c > t.vc.get(u) {
			s.race("write", s.site(fr), "read", w.rSite[u])
		}
	}
	w.wTid, w.wClk, w.wSite = t.id, t.vc.get(t.id), s.site(fr)
	w.r = w.r[:0]
	w.rSite = w.rSite[:0]
}

func (s *scheduler) onMap(m *omap, write bool, fr *frame) {
	if !s.raceOn || m == nil {
		return
	}
	if m.shadow == nil {
		m.shadow = &shadowWord{wTid: -1}
	}
	w := m.shadow
	t := s.cur
	if w.wTid >= 0 && w.wTid != t.id && w.wClk > t.vc.get(w.wTid) {
		s.race(map[bool]string{true: "map write", false: "map read"}[write], s.site(fr), "map write", w.wSite)
	}
	if write {
		for u, c := range w.r {
			if u != t.id && c > t.vc.get(u) {
				s.race("map write", s.site(fr), "map read", w.rSite[u])
			}
		}
		w.wTid, w.wClk, w.wSite = t.id, t.vc.get(t.id), s.site(fr)
		w.r = w.r[:0]
		w.rSite = w.rSite[:0]
	} else {
		for len(w.r) <= t.id {
			w.r = append(w.r, 0)
			w.rSite = append(w.rSite, "")
		}
		w.r[t.id] = t.vc.get(t.id)
		w.rSite[t.id] = s.site(fr)
	}
}

func (s *scheduler) race(k1, site1, k2, site2 string) {
	a, b := k1+"@"+site1, k2+"@"+site2
	if b < a {
		a, b = b, a
	}
	label := a + " / " + b
	if s.races[label] {
		return
	}
	s.races[label] = true
	s.i.run.violation("race", label, nil)
}

// ---- channels ----

func chanSendReady(c *mchan) bool { return c.closed || len(c.buf) < c.cap }
func chanRecvReady(c *mchan) bool { return c.closed || len(c.buf) > 0 }

func (s *scheduler) chanSend(c *mchan, v value) {
	if c == nil {
		s.yield(func() bool { return false }, "send on nil channel")
	}
	if c.cap == 0 {
		panic(inconclusive{"send on unbuffered channel"})
	}
	s.yield(func() bool { return chanSendReady(c) }, "chan send", c)
	if c.closed {
		panic(targetPanic{v: "send on closed channel"})
	}
	c.buf = append(c.buf, v)
	c.bufVC = append(c.bufVC, s.cur.vc.clone())
	s.tick()
}

func (s *scheduler) chanRecv(c *mchan) (value, bool) {
	if c == nil {
		s.yield(func() bool { return false }, "receive on nil channel")
	}
	s.yield(func() bool { return chanRecvReady(c) }, "chan recv", c)
	return s.chanTake(c)
}

func (s *scheduler) chanTake(c *mchan) (value, bool) {
	if len(c.buf) > 0 {
		v := c.buf[0]
		s.cur.vc = s.cur.vc.join(c.bufVC[0])
		c.buf = c.buf[1:]
		c.bufVC = c.bufVC[1:]
		return v, true
	}
	// closed
	s.cur.vc = s.cur.vc.join(c.vc)
	return zero(c.elem), false
}

func (s *scheduler) chanClose(c *mchan) {
	if c == nil {
		panic(targetPanic{v: "close of nil channel"})
	}
	s.yield(nil, "chan close", c)
	if c.closed {
		panic(targetPanic{v: "close of closed channel"})
	}
	c.closed = true
	c.vc = c.vc.join(s.cur.vc)
	s.tick()
}

func doSelect(fr *frame, instr *ssa.Select) value {
	s := fr.i.sch
	type cs struct {
		c    *mchan
		send bool
		v    value
	}
	var cases []cs
	for _, st := range instr.States {
		c, _ := fr.get(st.Chan).(*mchan)
		x := cs{c: c, send: st.Dir == types.SendOnly}
		if st.Send != nil {
			x.v = fr.get(st.Send)
		}
		cases = append(cases, x)
	}
	readyIdx := func() []int {
		var r []int
		for i, c := range cases {
			if c.c == nil {
				continue
			}
			if c.send && chanSendReady(c.c) || !c.send && chanRecvReady(c.c) {
				r = append(r, i)
			}
		}
		return r
	}
	var sobjs []interface{}
	for _, c := range cases {
		if c.c != nil {
			sobjs = append(sobjs, c.c)
		}
	}
	if instr.Blocking {
		s.yield(func() bool { return len(readyIdx()) > 0 }, "select", sobjs...)
	} else {
		s.yield(nil, "select", sobjs...)
	}
	rs := readyIdx()
	chosen := -1
	recvOk := false
	var recv value
	if len(rs) > 0 {
		chosen = rs[fr.i.run.decideN("select", len(rs))]
		c := cases[chosen]
		if c.send {
			if c.c.closed {
				panic(targetPanic{v: "send on closed channel"})
			}
			if c.c.cap == 0 {
				panic(inconclusive{"send on unbuffered channel"})
			}
			c.c.buf = append(c.c.buf, c.v)
			c.c.bufVC = append(c.c.bufVC, s.cur.vc.clone())
			s.tick()
		} else {
			recv, recvOk = s.chanTake(c.c)
		}
	}
	r := tuple{chosen, recvOk}
	for i, st := range instr.States {
		if st.Dir == types.RecvOnly {
			var v value
			if i == chosen && recvOk {
				v = recv
			} else {
				v = zero(st.Chan.Type().Underlying().(*types.Chan).Elem())
			}
			r = append(r, v)
		}
	}
	return r
}

// ---- sync package intrinsics ----

func init() {
	ext := func(name string, f func(fr *frame, args []value) value) { externals[name] = f }
	ptr := func(args []value) *value { return args[0].(*value) }

	ext("(*sync.Mutex).Lock", func(fr *frame, args []value) value {
		s := fr.i.sch
		o := s.obj(ptr(args))
		s.yield(func() bool { return !o.locked }, "Mutex.Lock", o)
		o.locked = true
		s.acquire(o)
		return nil
	})
	ext("(*sync.Mutex).TryLock", func(fr *frame, args []value) value {
		s := fr.i.sch
		o := s.obj(ptr(args))
		s.yield(nil, "Mutex.TryLock", o)
		if o.locked {
			return false
		}
		o.locked = true
		s.acquire(o)
		return true
	})
	ext("(*sync.Mutex).Unlock", func(fr *frame, args []value) value {
		s := fr.i.sch
		o := s.obj(ptr(args))
		s.yield(nil, "Mutex.Unlock", o)
		if !o.locked {
			fr.i.run.violation("fatal", "sync: unlock of unlocked mutex", nil)
			s.abortPath("")
		}
		o.locked = false
		s.release(o)
		return nil
	})
	ext("(*sync.RWMutex).Lock", func(fr *frame, args []value) value {
		s := fr.i.sch
		o := s.obj(ptr(args))
		// sync.RWMutex prefers writers: a blocked Lock excludes new readers. Lock is therefore two
		// steps: announce (take the writer mutex), then wait for the active readers to leave. A
		// goroutine that read-locks again while a writer is announced deadlocks, as it does in Go.
		if s.nthreads > 1 {
			s.yield(func() bool { return !o.wpend }, "RWMutex.Lock(announce)", o)
			o.wpend = true
		}
		s.yield(func() bool { return !o.locked && o.readers == 0 }, "RWMutex.Lock", o)
		o.wpend = true
		o.locked = true
		s.acquire(o)
		s.cur.vc = s.cur.vc.join(o.rvc)
		return nil
	})
	ext("(*sync.RWMutex).Unlock", func(fr *frame, args []value) value {
		s := fr.i.sch
		o := s.obj(ptr(args))
		s.yield(nil, "RWMutex.Unlock", o)
		if !o.locked {
			fr.i.run.violation("fatal", "sync: Unlock of unlocked RWMutex", nil)
			s.abortPath("")
		}
		o.locked = false
		o.wpend = false
		s.release(o)
		return nil
	})
	ext("(*sync.RWMutex).RLock", func(fr *frame, args []value) value {
		s := fr.i.sch
		o := s.obj(ptr(args))
		s.yield(func() bool { return !o.locked && !o.wpend }, "RWMutex.RLock", sharedAccess{o})
		o.readers++
		s.acquire(o)
		return nil
	})
	ext("(*sync.RWMutex).RUnlock", func(fr *frame, args []value) value {
		s := fr.i.sch
		o := s.obj(ptr(args))
		s.yield(nil, "RWMutex.RUnlock", sharedAccess{o})
		if o.readers <= 0 {
			fr.i.run.violation("fatal", "sync: RUnlock of unlocked RWMutex", nil)
			s.abortPath("")
		}
		o.readers--
		o.rvc = o.rvc.clone().join(s.cur.vc)
		s.tick()
		return nil
	})
	ext("(*sync.WaitGroup).Add", func(fr *frame, args []value) value {
		s := fr.i.sch
		o := s.obj(ptr(args))
		s.yield(nil, "WaitGroup.Add", o)
		o.count += int(asInt64(args[1]))
		if o.count < 0 {
			panic(targetPanic{v: "sync: negative WaitGroup counter"})
		}
		s.release(o)
		return nil
	})
	ext("(*sync.WaitGroup).Done", func(fr *frame, args []value) value {
		s := fr.i.sch
		o := s.obj(ptr(args))
		s.yield(nil, "WaitGroup.Done", o)
		o.count--
		if o.count < 0 {
			panic(targetPanic{v: "sync: negative WaitGroup counter"})
		}
		s.release(o)
		return nil
	})
	ext("(*sync.WaitGroup).Wait", func(fr *frame, args []value) value {
		s := fr.i.sch
		o := s.obj(ptr(args))
		s.yield(func() bool { return o.count == 0 }, "WaitGroup.Wait", o)
		s.acquire(o)
		return nil
	})
	ext("(*sync.Once).Do", func(fr *frame, args []value) value {
		s := fr.i.sch
		o := s.obj(ptr(args))
		s.yield(func() bool { return !o.locked }, "Once.Do", o)
		if o.done {
			s.acquire(o)
			return nil
		}
		o.locked = true
		call(fr.i, fr, token.NoPos, args[1], nil)
		o.done = true
		o.locked = false
		s.release(o)
		return nil
	})

	// sync/atomic on plain integers
	atomicOp := func(name string, f func(fr *frame, p *value, args []value) value) {
		ext("sync/atomic."+name, func(fr *frame, args []value) value {
			s := fr.i.sch
			p := ptr(args)
			o := s.obj(p)
			if strings.HasPrefix(name, "Load") {
				s.yield(nil, "atomic."+name, sharedAccess{o})
			} else {
				s.yield(nil, "atomic."+name, o)
			}
			s.acquire(o)
			r := f(fr, p, args)
			s.release(o)
			return r
		})
	}
	for _, ty := range []string{"Int32", "Int64", "Uint32", "Uint64", "Uintptr"} {
		ty := ty
		atomicOp("Load"+ty, func(fr *frame, p *value, args []value) value { return *p })
		atomicOp("Store"+ty, func(fr *frame, p *value, args []value) value { *p = args[1]; return nil })
		atomicOp("Add"+ty, func(fr *frame, p *value, args []value) value {
			*p = arith(token.ADD, *p, args[1])
			return *p
		})
		atomicOp("Swap"+ty, func(fr *frame, p *value, args []value) value {
			old := *p
			*p = args[1]
			return old
		})
		atomicOp("CompareAndSwap"+ty, func(fr *frame, p *value, args []value) value {
			eq := arith(token.EQL, *p, args[1])
			if concBool(fr, eq) {
				*p = args[2]
				return true
			}
			return false
		})
	}
}

// arith applies a binary operator to two scalars, either of which may be symbolic.
func arith(op token.Token, x, y value) value {
	if isSym(x) || isSym(y) {
		return symBinop(op, x, y)
	}
	return binop(op, types.Typ[types.Int64], x, y)
}
