package interp

// Insertion-ordered association list used for every Go map in the target
// program. Iteration order is insertion order (deterministic re-execution);
// lookups with symbolic keys compare against each present key, one decision
// per key.

import (
	"go/types"
)

type omap struct {
	keyType types.Type
	keys    []value
	vals    []value
	live    []bool
	n       int
	index   map[value]int // concrete basic keys only
	nsym    int           // number of live entries with symbolic keys
	shadow  *shadowWord   // race detector state for the map object
}

func makeMap(kt types.Type, reserve int64) value {
	return &omap{keyType: kt, index: map[value]int{}}
}

func indexable(k value) bool {
	switch k.(type) {
	case bool, int, int8, int16, int32, int64, uint, uint8, uint16, uint32, uint64, uintptr,
		float32, float64, string, *value, *mchan:
		return true
	}
	return false
}

// find returns the slot of key k or -1. May fork on symbolic comparisons.
func (m *omap) find(fr *frame, k value) int {
	if m == nil {
		return -1
	}
	kSym := hasSym(k)
	if !kSym && indexable(k) {
		if i, ok := m.index[k]; ok {
			return i
		}
		if m.nsym == 0 {
			return -1
		}
	}
	for i := range m.keys {
		if !m.live[i] {
			continue
		}
		if !kSym && !hasSym(m.keys[i]) {
			if indexable(k) {
				continue // concrete vs concrete handled by index
			}
			if equals(m.keyType, m.keys[i], k) {
				return i
			}
			continue
		}
		t := eqTerm(m.keyType, m.keys[i], k)
		if t.isConst() {
			if t.val == 1 {
				return i
			}
			continue
		}
		if fr.i.run.decideTerms("mapkey", []*Term{t, mkNot(t)}) == 0 {
			return i
		}
	}
	return -1
}

func (m *omap) lookup(fr *frame, k value) (value, bool) {
	i := m.find(fr, k)
	if i < 0 {
		return nil, false
	}
	return m.vals[i], true
}

func (m *omap) insert(fr *frame, k, v value) {
	if m == nil {
		panic("assignment to entry in nil map")
	}
	if i := m.find(fr, k); i >= 0 {
		m.vals[i] = v
		return
	}
	m.keys = append(m.keys, k)
	m.vals = append(m.vals, v)
	m.live = append(m.live, true)
	m.n++
	if hasSym(k) {
		m.nsym++
	} else if indexable(k) {
		m.index[k] = len(m.keys) - 1
	}
}

func (m *omap) delete(fr *frame, k value) {
	if m == nil {
		return
	}
	i := m.find(fr, k)
	if i < 0 {
		return
	}
	m.live[i] = false
	m.n--
	if hasSym(m.keys[i]) {
		m.nsym--
	} else if indexable(m.keys[i]) {
		delete(m.index, m.keys[i])
	}
}

func (m *omap) len() int {
	if m == nil {
		return 0
	}
	return m.n
}

type omapIter struct {
	m *omap
	i int
}

func (it *omapIter) next() tuple {
	if it.m != nil {
		// entries appended during iteration are visited (allowed by the Go spec)
		for it.i < len(it.m.keys) {
			i := it.i
			it.i++
			if it.m.live[i] {
				return tuple{true, it.m.keys[i], it.m.vals[i]}
			}
		}
	}
	return []value{false, nil, nil}
}
