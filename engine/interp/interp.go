// Copyright 2013 The Go Authors. All rights reserved.
// Use of this source code is governed by a BSD-style
// license that can be found in the LICENSE file.

// Package ssa/interp defines an interpreter for the SSA
// representation of Go programs.
//
// This interpreter is provided as an adjunct for testing the SSA
// construction algorithm.  Its purpose is to provide a minimal
// metacircular implementation of the dynamic semantics of each SSA
// instruction.  It is not, and will never be, a production-quality Go
// interpreter.
//
// The following is a partial list of Go features that are currently
// unsupported or incomplete in the interpreter.
//
// * Unsafe operations, including all uses of unsafe.Pointer, are
// impossible to support given the "boxed" value representation we
// have chosen.
//
// * The reflect package is only partially implemented.
//
// * The "testing" package is no longer supported because it
// depends on low-level details that change too often.
//
// * "sync/atomic" operations are not atomic due to the "boxed" value
// representation: it is not possible to read, modify and write an
// interface value atomically. As a consequence, Mutexes are currently
// broken.
//
// * recover is only partially implemented.  Also, the interpreter
// makes no attempt to distinguish target panics from interpreter
// crashes.
//
// * the sizes of the int, uint and uintptr types in the target
// program are assumed to be the same as those of the interpreter
// itself.
//
// * all values occupy space, even those of types defined by the spec
// to have zero size, e.g. struct{}.  This can cause asymptotic
// performance degradation.
//
// * os.Exit is implemented using panic, causing deferred functions to
// run.
package interp // import "golang.org/x/tools/go/ssa/interp"

import (
	"fmt"
	"go/token"
	"go/types"
	"log"
	"os"
	"runtime"
	"slices"
	"sync"
	_ "unsafe"

	"golang.org/x/tools/go/ssa"
)

type continuation int

const (
	kNext continuation = iota
	kReturn
	kJump
)

// Mode is a bitmask of options affecting the interpreter.
type Mode uint

const (
	DisableRecover Mode = 1 << iota // Disable recover() in target programs; show interpreter crash instead.
	EnableTracing                   // Print a trace of all instructions as they are interpreted.
)

type methodSet map[string]*ssa.Function

// State shared between all interpreted goroutines.
type interpreter struct {
	osArgs             []value                // the value of os.Args
	prog               *ssa.Program           // the SSA program
	globals            map[*ssa.Global]*value // addresses of global variables (immutable)
	mode               Mode                   // interpreter options
	reflectPackage     *ssa.Package           // the fake reflect package
	errorMethods       methodSet              // the method set of reflect.error, which implements the error interface.
	rtypeMethods       methodSet              // the method set of rtype, which implements the reflect.Type interface.
	runtimeErrorString types.Type             // the runtime.errorString type
	sizes              types.Sizes            // the effective type-sizing function
	goroutines         int32                  // atomically updated
	run                *Run                   // current path (gosym)
	sch                *scheduler             // current path's scheduler (gosym)
	w                  *worker
	initState          map[*ssa.Package]int // 0 = not run, 1 = running, 2 = done
	stubs              map[string]value     // callee name -> harness stub function
	goexit             bool
	envPool            []map[ssa.Value]value
}

type deferred struct {
	fn    value
	args  []value
	instr *ssa.Defer
	tail  *deferred
}

type frame struct {
	i                *interpreter
	caller           *frame
	fn               *ssa.Function
	block, prevBlock *ssa.BasicBlock
	env              map[ssa.Value]value // dynamic values of SSA variables
	locals           []value
	defers           *deferred
	result           value
	panicking        bool
	panic            interface{}
	phitemps         []value // temporaries for parallel phi assignment
	curInstr         ssa.Instruction
}

func (fr *frame) get(key ssa.Value) value {
	switch key := key.(type) {
	case nil:
		// Hack; simplifies handling of optional attributes
		// such as ssa.Slice.{Low,High}.
		return nil
	case *ssa.Function, *ssa.Builtin:
		return key
	case *ssa.Const:
		return constValue(key)
	case *ssa.Global:
		if r, ok := fr.i.globals[key]; ok {
			if key.Pkg != nil && fr.i.initState[key.Pkg] == 0 {
				fr.i.ensureInit(key.Pkg, key)
			}
			return r
		}
	}
	if r, ok := fr.env[key]; ok {
		return r
	}
	panic(fmt.Sprintf("get: no value for %T: %v", key, key.Name()))
}

// runDefer runs a deferred call d.
// It always returns normally, but may set or clear fr.panic.
func (fr *frame) runDefer(d *deferred) {
	if fr.i.mode&EnableTracing != 0 {
		fmt.Fprintf(os.Stderr, "%s: invoking deferred function call\n",
			fr.i.prog.Fset.Position(d.instr.Pos()))
	}
	var ok bool
	defer func() {
		if !ok {
			// Deferred call created a new state of panic.
			fr.panicking = true
			fr.panic = recover()
		}
	}()
	call(fr.i, fr, d.instr.Pos(), d.fn, d.args)
	ok = true
}

// runDefers executes fr's deferred function calls in LIFO order.
//
// On entry, fr.panicking indicates a state of panic; if
// true, fr.panic contains the panic value.
//
// On completion, if a deferred call started a panic, or if no
// deferred call recovered from a previous state of panic, then
// runDefers itself panics after the last deferred call has run.
//
// If there was no initial state of panic, or it was recovered from,
// runDefers returns normally.
func (fr *frame) runDefers() {
	for d := fr.defers; d != nil; d = d.tail {
		fr.runDefer(d)
	}
	fr.defers = nil
	if fr.panicking {
		panic(fr.panic) // new panic, or still panicking
	}
}

// lookupMethod returns the method set for type typ, which may be one
// of the interpreter's fake types.
func lookupMethod(i *interpreter, typ types.Type, meth *types.Func) *ssa.Function {
	return i.prog.LookupMethod(typ, meth.Pkg(), meth.Name())
}

// visitInstr interprets a single ssa.Instruction within the activation
// record frame.  It returns a continuation value indicating where to
// read the next instruction from.
func visitInstr(fr *frame, instr ssa.Instruction) continuation {
	switch instr := instr.(type) {
	case *ssa.DebugRef:
		// no-op

	case *ssa.UnOp:
		fr.env[instr] = unopFr(fr, instr, fr.get(instr.X))

	case *ssa.BinOp:
		fr.env[instr] = binopFr(fr, instr.Op, instr.X.Type(), fr.get(instr.X), fr.get(instr.Y))

	case *ssa.Call:
		fn, args := prepareCall(fr, &instr.Call)
		fr.env[instr] = call(fr.i, fr, instr.Pos(), fn, args)

	case *ssa.ChangeInterface:
		fr.env[instr] = fr.get(instr.X)

	case *ssa.ChangeType:
		fr.env[instr] = fr.get(instr.X) // (can't fail)

	case *ssa.Convert:
		fr.env[instr] = convFr(fr, instr.Type(), instr.X.Type(), fr.get(instr.X))

	case *ssa.SliceToArrayPointer:
		fr.env[instr] = sliceToArrayPointer(instr.Type(), instr.X.Type(), fr.get(instr.X))

	case *ssa.MakeInterface:
		fr.env[instr] = iface{t: instr.X.Type(), v: fr.get(instr.X)}

	case *ssa.Extract:
		fr.env[instr] = fr.get(instr.Tuple).(tuple)[instr.Index]

	case *ssa.Slice:
		fr.env[instr] = sliceFr(fr, fr.get(instr.X), fr.get(instr.Low), fr.get(instr.High), fr.get(instr.Max))

	case *ssa.Return:
		switch len(instr.Results) {
		case 0:
		case 1:
			fr.result = fr.get(instr.Results[0])
		default:
			var res []value
			for _, r := range instr.Results {
				res = append(res, fr.get(r))
			}
			fr.result = tuple(res)
		}
		fr.block = nil
		return kReturn

	case *ssa.RunDefers:
		fr.runDefers()

	case *ssa.Panic:
		panic(targetPanic{fr.get(instr.X)})

	case *ssa.Send:
		c, _ := fr.get(instr.Chan).(*mchan)
		fr.i.sch.chanSend(c, fr.get(instr.X))

	case *ssa.Store:
		addr := fr.get(instr.Addr).(*value)
		if fr.i.sch.raceOn {
			fr.i.sch.onWrite(addr, fr)
		}
		store(mustDeref(instr.Addr.Type()), addr, fr.get(instr.Val))

	case *ssa.If:
		succ := 1
		if concBool(fr, fr.get(instr.Cond)) {
			succ = 0
		}
		fr.prevBlock, fr.block = fr.block, fr.block.Succs[succ]
		return kJump

	case *ssa.Jump:
		fr.prevBlock, fr.block = fr.block, fr.block.Succs[0]
		return kJump

	case *ssa.Defer:
		fn, args := prepareCall(fr, &instr.Call)
		defers := &fr.defers
		if into := fr.get(instr.DeferStack); into != nil {
			defers = into.(**deferred)
		}
		*defers = &deferred{
			fn:    fn,
			args:  args,
			instr: instr,
			tail:  *defers,
		}

	case *ssa.Go:
		fn, args := prepareCall(fr, &instr.Call)
		if fr.i.sch.inlineGo {
			// harness request: run inert background goroutines (stubbed servers, timers) inline
			call(fr.i, fr, instr.Pos(), fn, args)
		} else {
			fr.i.sch.spawn(instr.Pos(), fn, args)
		}

	case *ssa.MakeChan:
		fr.env[instr] = &mchan{cap: int(concInt(fr, fr.get(instr.Size), "chan size")), elem: instr.Type().Underlying().(*types.Chan).Elem()}

	case *ssa.Alloc:
		var addr *value
		if instr.Heap {
			// new
			addr = new(value)
			fr.env[instr] = addr
		} else {
			// local
			addr = fr.env[instr].(*value)
		}
		*addr = zero(mustDeref(instr.Type()))

	case *ssa.MakeSlice:
		// symbolic sizes: first decide whether the Go runtime would panic
		// (negative, or beyond the maximum allocation), then enumerate the rest
		for _, sz := range []value{fr.get(instr.Cap), fr.get(instr.Len)} {
			if sv, ok := sz.(*Sym); ok {
				_, sgn := kindBits(sv.Kind)
				t := mkResize(sv.T, 64, sgn)
				bad := mkOr(mkCmp(opBvSLt, t, mkBV(0, 64)), mkCmp(opBvSLt, mkBV(uint64(1)<<47, 64), t))
				if fr.i.run.branch(bad) {
					panic("runtime error: makeslice: cap out of range")
				}
				// a size the client controls and that is not bounded by anything small is an
				// unbounded allocation: reported like a crash (fatal out-of-memory risk)
				huge := mkCmp(opBvSLt, mkBV(uint64(1)<<32, 64), t)
				if fr.i.run.branch(huge) {
					panic("runtime error: makeslice: allocation of more than 4 GiB requested by the input")
				}
			}
		}
		capv := concInt(fr, fr.get(instr.Cap), "make cap")
		lenv := concInt(fr, fr.get(instr.Len), "make len")
		if lenv < 0 || capv < lenv {
			panic("runtime error: makeslice: len out of range")
		}
		if capv > 1<<24 {
			panic(inconclusive{"huge allocation"})
		}
		slice := make([]value, capv)
		tElt := instr.Type().Underlying().(*types.Slice).Elem()
		for i := range slice {
			slice[i] = zero(tElt)
		}
		fr.env[instr] = slice[:lenv]

	case *ssa.MakeMap:
		var reserve int64
		if instr.Reserve != nil {
			reserve = concInt(fr, fr.get(instr.Reserve), "map reserve")
		}
		if !fitsInt(reserve, fr.i.sizes) {
			panic(fmt.Sprintf("ssa.MakeMap.Reserve value %d does not fit in int", reserve))
		}
		fr.env[instr] = makeMap(instr.Type().Underlying().(*types.Map).Key(), reserve)

	case *ssa.Range:
		fr.env[instr] = rangeIter(fr.get(instr.X), instr.X.Type())

	case *ssa.Next:
		fr.env[instr] = fr.get(instr.Iter).(iter).next()

	case *ssa.FieldAddr:
		px := fr.get(instr.X).(*value)
		if px == nil {
			panic("runtime error: invalid memory address or nil pointer dereference")
		}
		fr.env[instr] = &(*px).(structure)[instr.Field]

	case *ssa.Field:
		fr.env[instr] = fr.get(instr.X).(structure)[instr.Field]

	case *ssa.IndexAddr:
		x := fr.get(instr.X)
		idx := fr.get(instr.Index)
		switch x := x.(type) {
		case []value:
			fr.env[instr] = &x[symIndex(fr, idx, len(x))]
		case *value: // *array
			a := (*x).(array)
			fr.env[instr] = &a[symIndex(fr, idx, len(a))]
		default:
			panic(fmt.Sprintf("unexpected x type in IndexAddr: %T", x))
		}

	case *ssa.Index:
		x := fr.get(instr.X)
		idx := fr.get(instr.Index)

		switch x := x.(type) {
		case array:
			fr.env[instr] = x[symIndex(fr, idx, len(x))]
		case string:
			fr.env[instr] = x[symIndex(fr, idx, len(x))]
		case symstr:
			fr.env[instr] = x.b[symIndex(fr, idx, len(x.b))]
		default:
			panic(fmt.Sprintf("unexpected x type in Index: %T", x))
		}

	case *ssa.Lookup:
		fr.env[instr] = lookup(fr, instr, fr.get(instr.X), fr.get(instr.Index))

	case *ssa.MapUpdate:
		m := fr.get(instr.Map)
		key := fr.get(instr.Key)
		v := fr.get(instr.Value)
		switch m := m.(type) {
		case *omap:
			if fr.i.sch.raceOn {
				fr.i.sch.onMap(m, true, fr)
			}
			m.insert(fr, key, v)
		default:
			panic(fmt.Sprintf("illegal map type: %T", m))
		}

	case *ssa.TypeAssert:
		fr.env[instr] = typeAssert(fr.i, instr, fr.get(instr.X).(iface))

	case *ssa.MakeClosure:
		var bindings []value
		for _, binding := range instr.Bindings {
			bindings = append(bindings, fr.get(binding))
		}
		fr.env[instr] = &closure{instr.Fn.(*ssa.Function), bindings}

	case *ssa.Phi:
		log.Fatal("unreachable") // phis are processed at block entry

	case *ssa.Select:
		fr.env[instr] = doSelect(fr, instr)

	default:
		panic(fmt.Sprintf("unexpected instruction: %T", instr))
	}

	// if val, ok := instr.(ssa.Value); ok {
	// 	fmt.Println(toString(fr.env[val])) // debugging
	// }

	return kNext
}

// prepareCall determines the function value and argument values for a
// function call in a Call, Go or Defer instruction, performing
// interface method lookup if needed.
func prepareCall(fr *frame, call *ssa.CallCommon) (fn value, args []value) {
	v := fr.get(call.Value)
	if call.Method == nil {
		// Function call.
		fn = v
	} else {
		// Interface method invocation.
		recv := v.(iface)
		if recv.t == nil {
			panic("method invoked on nil interface")
		}
		if f := lookupMethod(fr.i, recv.t, call.Method); f == nil {
			// Unreachable in well-typed programs.
			panic(fmt.Sprintf("method set for dynamic type %v does not contain %s", recv.t, call.Method))
		} else {
			fn = f
		}
		args = append(args, recv.v)
	}
	for _, arg := range call.Args {
		args = append(args, fr.get(arg))
	}
	return
}

// call interprets a call to a function (function, builtin or closure)
// fn with arguments args, returning its result.
// callpos is the position of the callsite.
func call(i *interpreter, caller *frame, callpos token.Pos, fn value, args []value) value {
	switch fn := fn.(type) {
	case *ssa.Function:
		if fn == nil {
			panic("call of nil function") // nil of func type
		}
		return callSSA(i, caller, callpos, fn, args, nil)
	case *closure:
		return callSSA(i, caller, callpos, fn.Fn, args, fn.Env)
	case *ssa.Builtin:
		return callBuiltin(caller, callpos, fn, args)
	case *goFunc:
		return fn.f(caller, args)
	}
	panic(fmt.Sprintf("cannot call %T", fn))
}

func loc(fset *token.FileSet, pos token.Pos) string {
	if pos == token.NoPos {
		return ""
	}
	return " at " + fset.Position(pos).String()
}

// callSSA interprets a call to function fn with arguments args,
// and lexical environment env, returning its result.
// callpos is the position of the callsite.
func callSSA(i *interpreter, caller *frame, callpos token.Pos, fn *ssa.Function, args []value, env []value) value {
	if i.mode&EnableTracing != 0 {
		fset := fn.Prog.Fset
		// TODO(adonovan): fix: loc() lies for external functions.
		fmt.Fprintf(os.Stderr, "Entering %s%s.\n", fn, loc(fset, fn.Pos()))
		suffix := ""
		if caller != nil {
			suffix = ", resuming " + caller.fn.String() + loc(fset, callpos)
		}
		defer fmt.Fprintf(os.Stderr, "Leaving %s%s.\n", fn, suffix)
	}
	fr := &frame{
		i:      i,
		caller: caller, // for panic/recover
		fn:     fn,
	}
	if fn.Parent() == nil {
		fr.caller = caller
		if r, ok := dispatchSpecial(i, fr, fn, args); ok {
			return r
		}
		if fn.Blocks == nil {
			who := ""
			for f, n := caller, 0; f != nil && n < 4; f, n = f.caller, n+1 {
				who += " <- " + f.fn.String()
			}
			panic(inconclusive{"no code for function: " + fn.String() + who})
		}
	}
	if fn.Synthetic == "package initializer" {
		// nested init calls are skipped: packages initialise lazily on first global access
		if caller != nil && caller.fn != nil && caller.fn.Synthetic == "package initializer" {
			return nil
		}
	}

	// generic function body?
	if fn.TypeParams().Len() > 0 && len(fn.TypeArgs()) == 0 {
		panic("interp requires ssa.BuilderMode to include InstantiateGenerics to execute generics")
	}

	if n := len(i.envPool); n > 0 {
		fr.env = i.envPool[n-1]
		i.envPool = i.envPool[:n-1]
	} else {
		fr.env = make(map[ssa.Value]value)
	}
	fr.block = fn.Blocks[0]
	fr.locals = make([]value, len(fn.Locals))
	for i, l := range fn.Locals {
		fr.locals[i] = zero(mustDeref(l.Type()))
		fr.env[l] = &fr.locals[i]
	}
	for i, p := range fn.Params {
		fr.env[p] = args[i]
	}
	for i, fv := range fn.FreeVars {
		fr.env[fv] = env[i]
	}
	for fr.block != nil {
		runFrame(fr)
	}
	// (locals may be referenced after return through escaped addresses: keep them)
	if len(fr.env) <= 64 && i.sch != nil && i.sch.nthreads == 1 {
		clear(fr.env)
		i.envPool = append(i.envPool, fr.env)
	}
	fr.env = nil
	return fr.result
}

// runFrame executes SSA instructions starting at fr.block and
// continuing until a return, a panic, or a recovered panic.
//
// After a panic, runFrame panics.
//
// After a normal return, fr.result contains the result of the call
// and fr.block is nil.
//
// A recovered panic in a function without named return parameters
// (NRPs) becomes a normal return of the zero value of the function's
// result type.
//
// After a recovered panic in a function with NRPs, fr.result is
// undefined and fr.block contains the block at which to resume
// control.
func runFrame(fr *frame) {
	defer func() {
		if fr.block == nil {
			return // normal return
		}
		if fr.i.mode&DisableRecover != 0 {
			return // let interpreter crash
		}
		fr.panicking = true
		fr.panic = recover()
		if isEnginePanic(fr.panic) {
			panic(fr.panic)
		}
		if r := fr.i.run; r != nil && r.panicSite == "" {
			site := ""
			for f := fr; f != nil && len(site) < 600; f = f.caller {
				site += f.fn.String()
				if f.curInstr != nil {
					site += "@" + fr.i.prog.Fset.Position(f.curInstr.Pos()).String()
				}
				site += " <- "
			}
			r.panicSite = site
			r.panicFn = fr.fn.String()
		}
		if fr.i.mode&EnableTracing != 0 {
			fmt.Fprintf(os.Stderr, "Panicking: %T %v.\n", fr.panic, fr.panic)
		}
		fr.runDefers()
		fr.block = fr.fn.Recover
	}()

	for {
		if fr.i.mode&EnableTracing != 0 {
			fmt.Fprintf(os.Stderr, ".%s:\n", fr.block)
		}

		nonPhis := executePhis(fr)
		if w := fr.i.w; w != nil {
			w.cov[fr.block] = true
		}
		if r := fr.i.run; r != nil {
			r.steps += len(nonPhis)
			if r.steps > fr.i.w.ex.cfg.MaxSteps {
				panic(inconclusive{"step-budget"})
			}
		}
		for _, instr := range nonPhis {
			if fr.i.mode&EnableTracing != 0 {
				if v, ok := instr.(ssa.Value); ok {
					fmt.Fprintln(os.Stderr, "\t", v.Name(), "=", instr)
				} else {
					fmt.Fprintln(os.Stderr, "\t", instr)
				}
			}
			fr.curInstr = instr
			if visitInstr(fr, instr) == kReturn {
				return
			}
			// Inv: kNext (continue) or kJump (last instr)
		}
	}
}

// executePhis executes the phi-nodes at the start of the current
// block and returns the non-phi instructions.
func executePhis(fr *frame) []ssa.Instruction {
	firstNonPhi := -1
	for i, instr := range fr.block.Instrs {
		if _, ok := instr.(*ssa.Phi); !ok {
			firstNonPhi = i
			break
		}
	}
	// Inv: 0 <= firstNonPhi; every block contains a non-phi.

	nonPhis := fr.block.Instrs[firstNonPhi:]
	if firstNonPhi > 0 {
		phis := fr.block.Instrs[:firstNonPhi]
		// Execute parallel assignment of phis.
		//
		// See "the swap problem" in Briggs et al's "Practical Improvements
		// to the Construction and Destruction of SSA Form" for discussion.
		predIndex := slices.Index(fr.block.Preds, fr.prevBlock)
		fr.phitemps = fr.phitemps[:0]
		for _, phi := range phis {
			phi := phi.(*ssa.Phi)
			if fr.i.mode&EnableTracing != 0 {
				fmt.Fprintln(os.Stderr, "\t", phi.Name(), "=", phi)
			}
			fr.phitemps = append(fr.phitemps, fr.get(phi.Edges[predIndex]))
		}
		for i, phi := range phis {
			fr.env[phi.(*ssa.Phi)] = fr.phitemps[i]
		}
	}
	return nonPhis
}

// doRecover implements the recover() built-in.
func doRecover(caller *frame) value {
	// recover() must be exactly one level beneath the deferred
	// function (two levels beneath the panicking function) to
	// have any effect.  Thus we ignore both "defer recover()" and
	// "defer f() -> g() -> recover()".
	if caller.i.mode&DisableRecover == 0 &&
		caller != nil && !caller.panicking &&
		caller.caller != nil && caller.caller.panicking {
		caller.caller.panicking = false
		p := caller.caller.panic
		caller.caller.panic = nil
		if r := caller.i.run; r != nil {
			r.panicSite, r.panicFn = "", ""
		}

		// TODO(adonovan): support runtime.Goexit.
		switch p := p.(type) {
		case targetPanic:
			// The target program explicitly called panic().
			return p.v
		case runtime.Error:
			// The interpreter encountered a runtime error.
			return iface{caller.i.runtimeErrorString, p.Error()}
		case string:
			// The interpreter explicitly called panic().
			return iface{caller.i.runtimeErrorString, p}
		case error:
			return iface{caller.i.runtimeErrorString, p.Error()}
		default:
			panic(fmt.Sprintf("unexpected panic type %T in target call to recover()", p))
		}
	}
	return iface{}
}

var envSizes sync.Map // *ssa.Function -> int

// envSize is the number of SSA values a frame of fn can hold (map pre-sizing).
func envSize(fn *ssa.Function) int {
	if n, ok := envSizes.Load(fn); ok {
		return n.(int)
	}
	n := len(fn.Params) + len(fn.FreeVars) + len(fn.Locals)
	for _, b := range fn.Blocks {
		for _, in := range b.Instrs {
			if _, ok := in.(ssa.Value); ok {
				n++
			}
		}
	}
	envSizes.Store(fn, n)
	return n
}
