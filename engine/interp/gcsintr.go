package interp

// Intrinsics for the library surface used by storage/gcsemu: HTTP headers,
// MD5/base64 (native on concrete data), MIME types, error chains.

import (
	"crypto/md5"
	"encoding/base64"
	"go/token"
	"go/types"
	"mime"
	"net/http"
	"net/textproto"
	"strconv"
)

func allConcrete(bs []value) bool {
	for _, b := range bs {
		if isSym(b) {
			return false
		}
	}
	return true
}

func nativeBytes(bs []value) []byte {
	out := make([]byte, len(bs))
	for i, b := range bs {
		out[i] = b.(uint8)
	}
	return out
}

func strSlice(v value) []value {
	s, _ := v.([]value)
	return s
}

// unwrapErr calls the Unwrap method of an error value, if it has one.
func unwrapErr(fr *frame, err iface) (iface, bool) {
	if err.t == nil {
		return iface{}, false
	}
	ms := fr.i.prog.MethodSets.MethodSet(err.t)
	for k := 0; k < ms.Len(); k++ {
		sel := ms.At(k)
		if sel.Obj().Name() != "Unwrap" {
			continue
		}
		sig := sel.Type().(*types.Signature)
		if sig.Params().Len() != 0 || sig.Results().Len() != 1 {
			continue
		}
		fn := fr.i.prog.MethodValue(sel)
		if fn == nil {
			return iface{}, false
		}
		res := call(fr.i, fr, token.NoPos, fn, []value{err.v})
		next, ok := res.(iface)
		return next, ok
	}
	return iface{}, false
}

func init() {
	ext := func(name string, f externalFn) { externals[name] = f }
	hkey := func(fr *frame, v value) string {
		return textproto.CanonicalMIMEHeaderKey(concString(fr, v, "header key"))
	}
	ext("(net/http.Header).Set", func(fr *frame, args []value) value {
		m := args[0].(*omap)
		m.insert(fr, hkey(fr, args[1]), []value{args[2]})
		return nil
	})
	ext("(net/http.Header).Add", func(fr *frame, args []value) value {
		m := args[0].(*omap)
		k := hkey(fr, args[1])
		old, _ := m.lookup(fr, k)
		m.insert(fr, k, append(append([]value{}, strSlice(old)...), args[2]))
		return nil
	})
	ext("(net/http.Header).Get", func(fr *frame, args []value) value {
		m, _ := args[0].(*omap)
		if m == nil {
			return ""
		}
		v, ok := m.lookup(fr, hkey(fr, args[1]))
		if !ok || len(strSlice(v)) == 0 {
			return ""
		}
		return strSlice(v)[0]
	})
	ext("(net/http.Header).Values", func(fr *frame, args []value) value {
		m, _ := args[0].(*omap)
		if m == nil {
			return []value(nil)
		}
		v, _ := m.lookup(fr, hkey(fr, args[1]))
		return strSlice(v)
	})
	ext("(net/http.Header).Del", func(fr *frame, args []value) value {
		if m, _ := args[0].(*omap); m != nil {
			m.delete(fr, hkey(fr, args[1]))
		}
		return nil
	})
	// textproto.MIMEHeader has the same representation and the same methods
	for _, m := range []string{"Set", "Add", "Get", "Values", "Del"} {
		externals["(net/textproto.MIMEHeader)."+m] = externals["(net/http.Header)."+m]
	}
	ext("net/textproto.CanonicalMIMEHeaderKey", func(fr *frame, args []value) value {
		return hkey(fr, args[0])
	})
	ext("net/http.StatusText", func(fr *frame, args []value) value {
		return http.StatusText(int(concInt(fr, args[0], "status code")))
	})
	ext("crypto/md5.Sum", func(fr *frame, args []value) value {
		bs := strSlice(args[0])
		if !allConcrete(bs) {
			// uninterpreted function with functional consistency (equal inputs => equal outputs)
			return array(fr.i.run.ufBytes("md5", bs, 16))
		}
		h := md5.Sum(nativeBytes(bs))
		out := make(array, 16)
		for i := range out {
			out[i] = h[i]
		}
		// remember the concrete application so that symbolic applications stay consistent with it
		fr.i.run.ufRecord("md5", bs, []value(out))
		return out
	})
	ext("(*encoding/base64.Encoding).EncodeToString", func(fr *frame, args []value) value {
		bs := strSlice(args[1])
		if !allConcrete(bs) {
			return mkString(fr.i.run.ufBytes("base64", bs, (len(bs)+2)/3*4))
		}
		return base64.StdEncoding.EncodeToString(nativeBytes(bs))
	})
	ext("(*encoding/base64.Encoding).DecodeString", func(fr *frame, args []value) value {
		if ss, ok := args[1].(symstr); ok {
			// the inverse of an earlier (uninterpreted) encoding of symbolic bytes
			for _, c := range fr.i.run.ufCalls["base64"] {
				if len(c.out) != len(ss.b) {
					continue
				}
				same := true
				for k := range c.out {
					if c.out[k] != ss.b[k] {
						same = false
						break
					}
				}
				if same {
					return tuple{append([]value{}, c.in...), iface{}}
				}
			}
			panic(inconclusive{"base64 decoding of a symbolic string that no encoding produced"})
		}
		b, err := base64.StdEncoding.DecodeString(concString(fr, args[1], "base64 input"))
		if err != nil {
			return tuple{[]value(nil), fr.i.nativeError(err.Error())}
		}
		return tuple{bytesValue(b), iface{}}
	})
	ext("mime.TypeByExtension", func(fr *frame, args []value) value {
		return mime.TypeByExtension(concString(fr, args[0], "file extension"))
	})
	ext("os.IsNotExist", func(fr *frame, args []value) value {
		err := args[0].(iface)
		if err.t == nil {
			return false
		}
		s, ok := err.v.(string)
		return ok && types.Identical(err.t, fr.i.runtimeErrorString) && s == "file does not exist"
	})
	ext("errors.Is", func(fr *frame, args []value) value {
		err, target := args[0].(iface), args[1].(iface)
		for depth := 0; depth < 16 && err.t != nil; depth++ {
			if sameType(err.t, target.t) && !hasSym(err.v) && !hasSym(target.v) {
				if _, isPtr := err.v.(*value); isPtr || indexable(err.v) {
					if err.v == target.v {
						return true
					}
				} else if equals(err.t, err.v, target.v) {
					return true
				}
			}
			next, ok := unwrapErr(fr, err)
			if !ok {
				return false
			}
			err = next
		}
		return false
	})
	ext("errors.As", func(fr *frame, args []value) value {
		err := args[0].(iface)
		tgt := args[1].(iface) // holds *T
		ptr := tgt.v.(*value)
		want := tgt.t.Underlying().(*types.Pointer).Elem()
		for depth := 0; depth < 16 && err.t != nil; depth++ {
			if types.Identical(err.t, want) {
				*ptr = err.v
				return true
			}
			if wi, ok := want.Underlying().(*types.Interface); ok && types.Implements(err.t, wi) {
				*ptr = err
				return true
			}
			next, ok := unwrapErr(fr, err)
			if !ok {
				return false
			}
			err = next
		}
		return false
	})
	ext("errors.Unwrap", func(fr *frame, args []value) value {
		next, ok := unwrapErr(fr, args[0].(iface))
		if !ok {
			return iface{}
		}
		return next
	})
	ext("strconv.cloneString", func(fr *frame, args []value) value { return args[0] })
	ext("internal/stringslite.Clone", func(fr *frame, args []value) value { return args[0] })
	ext("strconv.Quote", func(fr *frame, args []value) value { return opaque{tag: "strconv.Quote"} })
	ext("(time.Time).Format", func(fr *frame, args []value) value {
		ns := args[0].(structure)[1]
		if isSym(ns) {
			return opaque{tag: "time.Format"}
		}
		return "t" + strconv.FormatInt(asInt64(ns), 10)
	})
}

type ufCall struct {
	in, out []value
}

// ufRecord notes a natively computed application of a function that is uninterpreted on symbolic input.
func (r *Run) ufRecord(name string, in, out []value) {
	if r.ufCalls == nil {
		r.ufCalls = map[string][]ufCall{}
	}
	if len(r.ufCalls[name]) < 64 {
		r.ufCalls[name] = append(r.ufCalls[name], ufCall{in: append([]value{}, in...), out: append([]value{}, out...)})
	}
}

// ufBytes applies an uninterpreted byte-string function: fresh symbolic output
// bytes, constrained to equal the output of every earlier application to an
// equal input (Ackermann expansion) and to differ from the output of every earlier application
// to a different input (injectivity / collision-freedom). Nothing else is assumed.
func (r *Run) ufBytes(name string, in []value, outLen int) []value {
	if r.ufCalls == nil {
		r.ufCalls = map[string][]ufCall{}
	}
	out := make([]value, outLen)
	for k := range out {
		out[k] = &Sym{T: r.fresh("$"+name, 8), Kind: types.Uint8}
	}
	for _, c := range r.ufCalls[name] {
		// different inputs give different outputs: base64 is injective, and MD5 is assumed
		// collision-free on the (short) inputs of one run - without this the solver may equate the
		// hash of a symbolic payload with the hash of an unrelated constant
		if len(c.in) != len(in) {
			if len(c.out) == len(out) {
				r.addPC(mkNot(bytesEqTerm(c.out, out)))
			}
			continue
		}
		same := bytesEqTerm(c.in, in)
		if len(c.out) == len(out) {
			r.addPC(mkImplies(bytesEqTerm(c.out, out), same))
		}
		if same.isFalse() {
			continue
		}
		r.addPC(mkImplies(same, bytesEqTerm(c.out, out)))
	}
	r.ufCalls[name] = append(r.ufCalls[name], ufCall{in: append([]value{}, in...), out: out})
	return out
}
