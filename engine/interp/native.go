package interp

// Native pass-through for pure library functions whose arguments are concrete
// on the path (symbolic subjects are concretised first, forking over their
// feasible values): regexp, rsc.io/binaryregexp, strconv formatting.

import (
	"go/types"
	"regexp"
	"strconv"

	"golang.org/x/tools/go/ssa"
	"rsc.io/binaryregexp"
)

type nativeObj struct{ v interface{} }

func concString(fr *frame, v value, what string) string {
	switch s := v.(type) {
	case string:
		return s
	case symstr:
		return string(concBytes(fr, s.b, what))
	}
	panic("gosym: concString of non-string")
}

func (i *interpreter) nativeError(msg string) value { return i.errorValue(msg) }

func nativePtr(x interface{}) value {
	cell := value(nativeObj{x})
	return &cell
}

func fromNativePtr(v value) interface{} {
	p := v.(*value)
	if p == nil {
		panic("runtime error: invalid memory address or nil pointer dereference")
	}
	return (*p).(nativeObj).v
}

func bytesValue(b []byte) value {
	if b == nil {
		return []value(nil)
	}
	out := make([]value, len(b))
	for k := range b {
		out[k] = b[k]
	}
	return out
}

func init() {
	ext := func(name string, f externalFn) { externals[name] = f }
	ext("regexp.MustCompile", func(fr *frame, args []value) value {
		re, err := regexp.Compile(concString(fr, args[0], "regexp"))
		if err != nil {
			panic(targetPanic{v: "regexp: Compile: " + err.Error()})
		}
		return nativePtr(re)
	})
	ext("regexp.Compile", func(fr *frame, args []value) value {
		re, err := regexp.Compile(concString(fr, args[0], "regexp"))
		if err != nil {
			return tuple{(*value)(nil), fr.i.nativeError(err.Error())}
		}
		return tuple{nativePtr(re), iface{}}
	})
	ext("(*regexp.Regexp).MatchString", func(fr *frame, args []value) value {
		return fromNativePtr(args[0]).(*regexp.Regexp).MatchString(concString(fr, args[1], "regexp subject"))
	})
	ext("(*regexp.Regexp).Match", func(fr *frame, args []value) value {
		return fromNativePtr(args[0]).(*regexp.Regexp).Match(concBytes(fr, args[1].([]value), "regexp subject"))
	})
	ext("(*regexp.Regexp).FindStringSubmatch", func(fr *frame, args []value) value {
		m := fromNativePtr(args[0]).(*regexp.Regexp).FindStringSubmatch(concString(fr, args[1], "regexp subject"))
		if m == nil {
			return []value(nil)
		}
		out := make([]value, len(m))
		for k := range m {
			out[k] = m[k]
		}
		return out
	})
	ext("rsc.io/binaryregexp.Compile", func(fr *frame, args []value) value {
		re, err := binaryregexp.Compile(concString(fr, args[0], "regexp"))
		if err != nil {
			return tuple{(*value)(nil), fr.i.nativeError(err.Error())}
		}
		return tuple{nativePtr(re), iface{}}
	})
	ext("(*rsc.io/binaryregexp.Regexp).Match", func(fr *frame, args []value) value {
		return fromNativePtr(args[0]).(*binaryregexp.Regexp).Match(concBytes(fr, args[1].([]value), "regexp subject"))
	})
	ext("(*rsc.io/binaryregexp.Regexp).MatchString", func(fr *frame, args []value) value {
		return fromNativePtr(args[0]).(*binaryregexp.Regexp).MatchString(concString(fr, args[1], "regexp subject"))
	})
	ext("os.Getenv", func(fr *frame, args []value) value { return "" })
	ext("strconv.Itoa", func(fr *frame, args []value) value {
		return strconv.Itoa(int(concInt(fr, args[0], "Itoa")))
	})
	ext("strconv.FormatInt", func(fr *frame, args []value) value {
		return strconv.FormatInt(concInt(fr, args[0], "FormatInt"), int(asInt64(args[1])))
	})
	ext("strconv.FormatUint", func(fr *frame, args []value) value {
		return strconv.FormatUint(uint64(concInt(fr, args[0], "FormatUint")), int(asInt64(args[1])))
	})
	ext("strconv.Quote", func(fr *frame, args []value) value { return opaque{tag: "strconv.Quote"} })
}

// resetTargetGlobals re-zeroes the globals of the packages under test so that
// every path starts from the same state; their initialisers re-run lazily.
func (i *interpreter) resetTargetGlobals() {
	for _, pkg := range i.prog.AllPackages() {
		if !isTargetPkg(pkg) {
			continue
		}
		if i.initState[pkg] == 0 {
			continue
		}
		for _, m := range pkg.Members {
			if g, ok := m.(*ssa.Global); ok {
				*i.globals[g] = zero(mustDeref(g.Type()))
			}
		}
		i.initState[pkg] = 0
	}
}

func isTargetPkg(pkg *ssa.Package) bool {
	p := pkg.Pkg.Path()
	return len(p) >= len(targetPathFragment) && containsStr(p, targetPathFragment)
}

func containsStr(s, sub string) bool {
	for k := 0; k+len(sub) <= len(s); k++ {
		if s[k:k+len(sub)] == sub {
			return true
		}
	}
	return false
}

var _ = types.Typ
