package interp

// Persistent SMT solver back ends and the per-query portfolio.

import (
	"bufio"
	"fmt"
	"io"
	"os"
	"os/exec"
	"sort"
	"strconv"
	"strings"
	"sync/atomic"
	"time"
)

type backend struct {
	name  string
	cmd   *exec.Cmd
	in    io.WriteCloser
	out   *bufio.Reader
	sent  int // number of table defs already sent
	dead  bool
	uses  int
	stats *SolverStats
}

// SolverStats is aggregated over a whole exploration (merged from workers).
type SolverStats struct {
	Queries   map[string]int     // backend/result -> count
	Seconds   map[string]float64 // backend -> wall seconds
	CacheHits int
	ModelHits int
	Unknown   int
	Errors    int
}

func newSolverStats() *SolverStats {
	return &SolverStats{Queries: map[string]int{}, Seconds: map[string]float64{}}
}

func (s *SolverStats) merge(o *SolverStats) {
	for k, v := range o.Queries {
		s.Queries[k] += v
	}
	for k, v := range o.Seconds {
		s.Seconds[k] += v
	}
	s.CacheHits += o.CacheHits
	s.ModelHits += o.ModelHits
	s.Unknown += o.Unknown
	s.Errors += o.Errors
}

func startBackend(name string, stats *SolverStats) *backend {
	var cmd *exec.Cmd
	var pre []string
	switch name {
	case "z3-fast":
		cmd = exec.Command("z3", "-in")
		pre = []string{"(set-option :timeout 150)"}
	case "z3":
		cmd = exec.Command("z3", "-in")
		pre = []string{"(set-option :timeout 5000)"}
	case "z3-new":
		cmd = exec.Command("z3-new", "-in")
		pre = []string{"(set-option :timeout 30000)"}
	case "cvc5-int":
		cmd = exec.Command("cvc5", "--incremental", "--lang", "smt2", "--solve-bv-as-int=sum", "--produce-models", "--tlimit-per=10000")
		pre = []string{"(set-logic ALL)"}
	case "cvc5":
		cmd = exec.Command("cvc5", "--incremental", "--lang", "smt2", "--produce-models", "--tlimit-per=10000")
		pre = []string{"(set-logic ALL)"}
	default:
		panic("unknown backend " + name)
	}
	in, err := cmd.StdinPipe()
	if err != nil {
		panic(err)
	}
	o, err := cmd.StdoutPipe()
	if err != nil {
		panic(err)
	}
	cmd.Stderr = nil
	if err := cmd.Start(); err != nil {
		fmt.Fprintf(os.Stderr, "gosym: cannot start %s: %v\n", name, err)
		return &backend{name: name, dead: true, stats: stats}
	}
	b := &backend{name: name, cmd: cmd, in: in, out: bufio.NewReaderSize(o, 1<<16), stats: stats}
	for _, l := range pre {
		b.send(l)
	}
	return b
}

func (b *backend) send(l string) {
	if _, err := io.WriteString(b.in, l+"\n"); err != nil {
		b.dead = true
	}
}

func (b *backend) close() {
	if b.cmd != nil && !b.dead {
		b.in.Close()
		done := make(chan struct{})
		go func() { b.cmd.Wait(); close(done) }()
		select {
		case <-done:
		case <-time.After(2 * time.Second):
			b.cmd.Process.Kill()
			<-done
		}
	}
	b.dead = true
}

// readSexp reads one line, or a balanced s-expression spanning lines.
func (b *backend) readSexp() string {
	var sb strings.Builder
	depth := 0
	for {
		l, err := b.out.ReadString('\n')
		if err != nil {
			b.dead = true
			return "(error \"solver died\")"
		}
		sb.WriteString(l)
		depth += strings.Count(l, "(") - strings.Count(l, ")")
		if depth <= 0 {
			break
		}
	}
	return strings.TrimSpace(sb.String())
}

// query asserts the given refs, checks, optionally fetches values for vars.
func (b *backend) query(tt *termTable, asserts []int, wantModel bool, vars []int, abstract bool) (string, Model) {
	if b.dead {
		return "unknown", nil
	}
	t0 := time.Now()
	var sb strings.Builder
	sb.WriteString("(push 1)\n")
	// self-contained scoped query: only the definitions this query needs
	need := map[int]bool{}
	var order []int
	var walk func(id int)
	walk = func(id int) {
		if need[id] {
			return
		}
		need[id] = true
		for _, a := range tt.terms[id-1].args {
			walk(tt.intern(a))
		}
		order = append(order, id)
	}
	for _, id := range asserts {
		walk(id)
	}
	declared := map[string]bool{}
	var axioms []string
	for _, id := range order {
		d := tt.defs[id-1]
		if d == "" {
			continue
		}
		if abstract {
			if ad, ax, decl := abstractDef(tt, id); ad != "" {
				if !declared[decl] {
					declared[decl] = true
					sb.WriteString(decl)
					sb.WriteByte('\n')
				}
				d = ad
				axioms = append(axioms, ax...)
			}
		}
		sb.WriteString(d)
		sb.WriteByte('\n')
	}
	for _, ax := range axioms {
		sb.WriteString("(assert " + ax + ")\n")
	}
	for _, id := range asserts {
		sb.WriteString("(assert " + tt.ref(id) + ")\n")
	}
	sb.WriteString("(check-sat)\n")
	b.send(sb.String())
	res := b.readSexp()
	var m Model
	bad := false
	if strings.HasPrefix(res, "(error") {
		bad = true
	}
	if res == "sat" && wantModel && len(vars) > 0 {
		names := make([]string, len(vars))
		for i, v := range vars {
			names[i] = tt.ref(v)
		}
		b.send("(get-value (" + strings.Join(names, " ") + "))")
		mv := b.readSexp()
		if strings.HasPrefix(mv, "(error") {
			bad = true
		} else {
			m = parseModel(mv)
		}
	}
	b.send("(pop 1)")
	if bad {
		b.stats.Errors++
		res = "unknown"
		// resynchronise: the solver may have printed more error lines
		b.send("(echo \"SYNC\")")
		for i := 0; i < 1000; i++ {
			l := b.readSexp()
			if strings.Contains(l, "SYNC") || b.dead {
				break
			}
		}
	}
	if res != "sat" && res != "unsat" {
		res = "unknown"
	}
	qn := b.name
	if abstract {
		qn += "(abs)"
	}
	b.stats.Queries[qn+"/"+res]++
	b.stats.Seconds[qn] += time.Since(t0).Seconds()
	b.uses++
	if strings.HasPrefix(b.name, "cvc5") && b.uses >= 1 && !b.dead {
		// a long-lived cvc5 with --solve-bv-as-int gets slower with every scope
		// (measured: 23 ms one-shot vs 35-130 ms persistent); use a fresh process
		// per query, started now so that it is warm when needed.
		old := *b
		nb := startBackend(b.name, b.stats)
		*b = *nb
		go old.close()
	}
	return res, m
}

// parseModel parses a get-value answer: ((name value) ...).
func parseModel(s string) Model {
	m := Model{}
	toks := tokenize(s)
	// expect ( ( name val ) ( name val ) ... )
	i := 0
	next := func() string {
		if i < len(toks) {
			i++
			return toks[i-1]
		}
		return ""
	}
	if next() != "(" {
		return m
	}
	for i < len(toks) {
		t := next()
		if t == ")" {
			break
		}
		if t != "(" {
			continue
		}
		name := next()
		name = strings.Trim(name, "|")
		v := next()
		var val uint64
		switch {
		case v == "true":
			val = 1
		case v == "false":
			val = 0
		case strings.HasPrefix(v, "#x"):
			val, _ = strconv.ParseUint(v[2:], 16, 64)
		case strings.HasPrefix(v, "#b"):
			val, _ = strconv.ParseUint(v[2:], 2, 64)
		case v == "(":
			// (_ bvN w)
			next() // _
			bv := next()
			next() // w
			next() // )
			val, _ = strconv.ParseUint(strings.TrimPrefix(bv, "bv"), 10, 64)
		}
		m[name] = val
		// skip to closing paren of this pair
		for i < len(toks) && next() != ")" {
		}
	}
	return m
}

func tokenize(s string) []string {
	var toks []string
	i := 0
	for i < len(s) {
		c := s[i]
		switch {
		case c == '(' || c == ')':
			toks = append(toks, string(c))
			i++
		case c == ' ' || c == '\n' || c == '\t' || c == '\r':
			i++
		case c == '|':
			j := strings.IndexByte(s[i+1:], '|')
			if j < 0 {
				j = len(s) - i - 2
			}
			toks = append(toks, s[i:i+j+2])
			i += j + 2
		default:
			j := i
			for j < len(s) && !strings.ContainsRune("() \n\t\r", rune(s[j])) {
				j++
			}
			toks = append(toks, s[i:j])
			i = j
		}
	}
	return toks
}

// ---- portfolio with slicing and cache (one per worker) ----

type portfolio struct {
	tt       *termTable
	backends []*backend
	order    []string
	cache    map[string]cacheEnt
	stats    *SolverStats
	varMemo  map[int][]int
	hardMemo map[int]bool
}

type cacheEnt struct {
	res   string
	model Model
}

func newPortfolio(order []string) *portfolio {
	p := &portfolio{tt: newTermTable(), order: order, cache: map[string]cacheEnt{}, stats: newSolverStats(),
		varMemo: map[int][]int{}, hardMemo: map[int]bool{}}
	for _, n := range order {
		p.backends = append(p.backends, startBackend(n, p.stats))
	}
	return p
}

func (p *portfolio) close() {
	for _, b := range p.backends {
		b.close()
	}
}

// reset drops the term table and restarts solvers (bounds memory on long runs).
func (p *portfolio) reset() {
	p.close()
	p.tt = newTermTable()
	p.cache = map[string]cacheEnt{}
	p.varMemo = map[int][]int{}
	p.hardMemo = map[int]bool{}
	p.backends = nil
	for _, n := range p.order {
		p.backends = append(p.backends, startBackend(n, p.stats))
	}
}

// hard reports whether a term contains arithmetic that bit-blasting handles badly.
func (p *portfolio) hard(id int) bool {
	if h, ok := p.hardMemo[id]; ok {
		return h
	}
	t := p.tt.terms[id-1]
	h := false
	switch t.op {
	case opBvSRem, opBvSDiv, opBvURem, opBvUDiv, opBvMul:
		h = t.bits >= 32
	}
	if !h {
		for _, a := range t.args {
			if p.hard(p.tt.intern(a)) {
				h = true
				break
			}
		}
	}
	p.hardMemo[id] = h
	return h
}

// slice returns the subset of pc (term ids) transitively sharing variables with q.
func (p *portfolio) slice(pc []int, q int) []int {
	inVars := map[int]bool{}
	for _, v := range p.tt.varsOf(q, p.varMemo) {
		inVars[v] = true
	}
	used := make([]bool, len(pc))
	var out []int
	for changed := true; changed; {
		changed = false
		for i, c := range pc {
			if used[i] {
				continue
			}
			vs := p.tt.varsOf(c, p.varMemo)
			hit := false
			for _, v := range vs {
				if inVars[v] {
					hit = true
					break
				}
			}
			if hit {
				used[i] = true
				out = append(out, c)
				for _, v := range vs {
					if !inVars[v] {
						inVars[v] = true
						changed = true
					}
				}
			}
		}
	}
	return out
}

// check decides sat(pc ∧ q). With wantModel it returns values for allVars (names).
func (p *portfolio) check(pc []int, q int, wantModel bool, noSlice bool) (string, Model) {
	asserts := pc
	if !noSlice {
		asserts = p.slice(pc, q)
	}
	asserts = append(append([]int{}, asserts...), q)
	// dedupe + canonical order for the cache key
	sorted := append([]int{}, asserts...)
	sort.Ints(sorted)
	var kb strings.Builder
	prev := -1
	uniq := sorted[:0]
	for _, a := range sorted {
		if a == prev {
			continue
		}
		prev = a
		uniq = append(uniq, a)
		kb.WriteString(strconv.Itoa(a))
		kb.WriteByte(',')
	}
	key := kb.String()
	if ce, ok := p.cache[key]; ok && (!wantModel || ce.model != nil || ce.res != "sat") {
		p.stats.CacheHits++
		return ce.res, ce.model
	}
	var vars []int
	if wantModel {
		seen := map[int]bool{}
		for _, a := range uniq {
			for _, v := range p.tt.varsOf(a, p.varMemo) {
				if !seen[v] {
					seen[v] = true
					vars = append(vars, v)
				}
			}
		}
	}
	hard := false
	for _, a := range uniq {
		if p.hard(a) {
			hard = true
			break
		}
	}
	if d := os.Getenv("GOSYM_DUMP_QUERIES"); d != "" && hard {
		dumpQuery(d, p.tt, uniq)
	}
	res := "unknown"
	var model Model
	tried := 0
	if hard {
		// Over-approximation first: x rem c (c constant) becomes an uninterpreted
		// function with sound axioms. unsat there implies unsat exactly; anything
		// else is re-decided exactly below.
		for _, b := range p.backends {
			if b.dead || !strings.HasPrefix(b.name, "z3") {
				continue
			}
			if r, _ := b.query(p.tt, uniq, false, nil, true); r == "unsat" {
				p.cache[key] = cacheEnt{"unsat", nil}
				return "unsat", nil
			}
			break
		}
	}
	for pass := 0; pass < 2 && res == "unknown"; pass++ {
		for _, b := range p.backends {
			if b.dead {
				continue
			}
			// hard arithmetic: integer encoding first, bit-blasting back ends later
			late := hard && strings.HasPrefix(b.name, "z3")
			if (pass == 1) != late {
				continue
			}
			tried++
			res, model = b.query(p.tt, uniq, wantModel, vars, false)
			if res != "unknown" {
				break
			}
		}
	}
	if tried == 0 {
		panic(engineError{"no live solver back end"})
	}
	if res == "unknown" {
		p.stats.Unknown++
	}
	p.cache[key] = cacheEnt{res, model}
	return res, model
}

// crossCheck re-decides a query on the back ends not used first; returns disagreement text.
func (p *portfolio) crossCheck(pc []int, q int, expect string) string {
	asserts := append(p.slice(pc, q), q)
	got := ""
	for _, b := range p.backends {
		if b.dead {
			continue
		}
		r, _ := b.query(p.tt, asserts, false, nil, false)
		if r != "unknown" && r != expect {
			got += fmt.Sprintf("%s says %s, expected %s; ", b.name, r, expect)
		}
	}
	return got
}

var dumpSeq int64

// dumpQuery writes a self-contained SMT-LIB file (debugging / solver probes).
func dumpQuery(dir string, tt *termTable, asserts []int) {
	n := atomic.AddInt64(&dumpSeq, 1)
	if n%13 != 0 || n > 13*300 {
		return
	}
	need := map[int]bool{}
	var walk func(id int)
	walk = func(id int) {
		if need[id] {
			return
		}
		need[id] = true
		for _, a := range tt.terms[id-1].args {
			walk(tt.intern(a))
		}
	}
	for _, a := range asserts {
		walk(a)
	}
	var sb strings.Builder
	for id := 1; id <= len(tt.terms); id++ {
		if need[id] && tt.defs[id-1] != "" {
			sb.WriteString(tt.defs[id-1] + "\n")
		}
	}
	for _, a := range asserts {
		sb.WriteString("(assert " + tt.ref(a) + ")\n")
	}
	sb.WriteString("(check-sat)\n")
	os.WriteFile(fmt.Sprintf("%s/q%04d.smt2", dir, n), []byte(sb.String()), 0644)
}

// abstractDef returns, for a remainder-by-constant term, a definition through an
// uninterpreted function, sound axioms about it, and the function declaration.
func abstractDef(tt *termTable, id int) (def string, axioms []string, decl string) {
	t := tt.terms[id-1]
	if (t.op != opBvSRem && t.op != opBvURem) || t.bits < 32 || !t.args[1].isConst() || t.args[1].val == 0 {
		return "", nil, ""
	}
	c := t.args[1].val
	if t.op == opBvSRem && signExt(c, t.bits) <= 0 {
		return "", nil, ""
	}
	kind := "srem"
	if t.op == opBvURem {
		kind = "urem"
	}
	fn := fmt.Sprintf("uf_%s_%d_%d", kind, c, t.bits)
	sort := sortOf(t.bits)
	decl = "(declare-fun " + fn + " (" + sort + ") " + sort + ")"
	x := tt.ref(tt.intern(t.args[0]))
	me := "t" + strconv.Itoa(id)
	def = "(define-fun " + me + " () " + sort + " (" + fn + " " + x + "))"
	cs := "(_ bv" + strconv.FormatUint(c, 10) + " " + strconv.Itoa(t.bits) + ")"
	zero := "(_ bv0 " + strconv.Itoa(t.bits) + ")"
	if t.op == opBvURem {
		axioms = append(axioms, "(bvult "+me+" "+cs+")", "(bvule "+me+" "+x+")",
			"(=> (bvult "+x+" "+cs+") (= "+me+" "+x+"))")
	} else {
		axioms = append(axioms,
			"(bvslt "+me+" "+cs+")", "(bvslt (bvneg "+cs+") "+me+")",
			"(=> (bvsge "+x+" "+zero+") (bvsge "+me+" "+zero+"))",
			"(=> (bvsle "+x+" "+zero+") (bvsle "+me+" "+zero+"))",
			"(=> (and (bvsge "+x+" "+zero+") (bvslt "+x+" "+cs+")) (= "+me+" "+x+"))")
	}
	// x = a - (a rem c)  =>  x rem c = 0   (no wrap-around: |a rem c| <= |a|, same sign)
	if a := t.args[0]; a.op == opBvSub && a.args[1].op == t.op && a.args[1].args[0] == a.args[0] &&
		a.args[1].args[1].isConst() && a.args[1].args[1].val == c {
		axioms = append(axioms, "(= "+me+" "+zero+")")
	}
	return def, axioms, decl
}
