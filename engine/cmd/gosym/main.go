// Command gosym symbolically executes harness functions of a Go package
// (loaded from the current working tree with an overlay) and reports the
// result of each as JSON.
package main

import (
	"encoding/json"
	"flag"
	"fmt"
	"os"
	"path/filepath"
	"runtime/debug"
	"runtime/pprof"
	"strconv"
	"strings"
	"time"

	"gosym/interp"

	"golang.org/x/tools/go/packages"
	"golang.org/x/tools/go/ssa"
	"golang.org/x/tools/go/ssa/ssautil"
)

func main() {
	dir := flag.String("dir", "", "module directory (e.g. /repo/bigtable)")
	pkg := flag.String("pkg", "", "package pattern relative to dir (e.g. ./bttest)")
	overlay := flag.String("overlay", "", "comma-separated real files injected into the package directory as zz_verif_<base>")
	replace := flag.String("replace", "", "comma-separated virtual=real pairs (source mutants applied in memory)")
	run := flag.String("run", "", "comma-separated harness function names")
	out := flag.String("out", "", "write results JSON here")
	workers := flag.Int("workers", 0, "parallel workers (default: NumCPU)")
	maxPaths := flag.Int("maxpaths", 0, "cap on paths per harness (0 = none)")
	maxSteps := flag.Int("maxsteps", 0, "per-path instruction budget")
	maxDec := flag.Int("maxdecisions", 0, "per-path decision budget")
	preempt := flag.Int("preempt", 0, "preemption bound (0 = unbounded)")
	timeLimit := flag.Duration("timelimit", 0, "wall-clock limit per harness")
	cross := flag.Bool("crosscheck", false, "re-decide assertion queries on the other back ends")
	stopFirst := flag.Bool("stopfirst", false, "stop a harness at its first violation")
	trace := flag.Bool("trace", false, "print violations as found")
	tags := flag.String("tags", "verif", "build tags")
	solvers := flag.String("solvers", "", "comma-separated back ends (z3,cvc5-int,z3-new,cvc5)")
	tier := flag.String("tier", "quick", "quick or thorough (selects vBound values)")
	trail := flag.String("trail", "", "replay: JSON file with a violation (trail + inputs) to re-execute concretely")
	samples := flag.Int("samples", 8, "passing paths to keep per harness for native trace validation")
	cpuprof := flag.String("cpuprofile", "", "write a CPU profile")
	flag.Parse()
	if g := os.Getenv("GOSYM_GOGC"); g != "" {
		n, _ := strconv.Atoi(g)
		debug.SetGCPercent(n)
	} else {
		debug.SetGCPercent(100)
	}
	if *cpuprof != "" {
		f, _ := os.Create(*cpuprof)
		pprof.StartCPUProfile(f)
		defer pprof.StopCPUProfile()
	}

	t0 := time.Now()
	ov := map[string][]byte{}
	pkgDir := filepath.Join(*dir, strings.TrimPrefix(*pkg, "./"))
	for _, f := range strings.Split(*overlay, ",") {
		if f == "" {
			continue
		}
		src, err := os.ReadFile(f)
		if err != nil {
			fatal(err)
		}
		ov[filepath.Join(pkgDir, "zz_verif_"+filepath.Base(f))] = src
	}
	for _, pr := range strings.Split(*replace, ",") {
		if pr == "" {
			continue
		}
		kv := strings.SplitN(pr, "=", 2)
		src, err := os.ReadFile(kv[1])
		if err != nil {
			fatal(err)
		}
		ov[kv[0]] = src
	}
	cfg := &packages.Config{
		Mode:       packages.LoadAllSyntax,
		Dir:        *dir,
		BuildFlags: []string{"-mod=mod", "-tags=" + *tags},
		Env:        append(os.Environ(), "GOFLAGS=-mod=mod", "GOPROXY=off", "GOSUMDB=off", "GOTOOLCHAIN=local"),
		Overlay:    ov,
	}
	pkgs, err := packages.Load(cfg, *pkg)
	if err != nil {
		fatal(err)
	}
	if packages.PrintErrors(pkgs) > 0 {
		os.Exit(3)
	}
	prog, spkgs := ssautil.AllPackages(pkgs, ssa.InstantiateGenerics)
	prog.Build()
	loadS := time.Since(t0).Seconds()

	var results []*interp.Result
	for _, name := range strings.Split(*run, ",") {
		if name == "" {
			continue
		}
		fn := spkgs[0].Func(name)
		if fn == nil {
			fatal(fmt.Errorf("no harness function %s in %s", name, spkgs[0].Pkg.Path()))
		}
		c := interp.Config{
			Harness: name, Workers: *workers, MaxPaths: *maxPaths, MaxSteps: *maxSteps, MaxDecisions: *maxDec,
			MaxPreempt: *preempt, TimeLimit: *timeLimit, CrossCheck: *cross, StopAtFirst: *stopFirst, MaxSamples: *samples, Trace: *trace, Tier: *tier,
		}
		if *solvers != "" {
			c.Solvers = strings.Split(*solvers, ",")
		}
		var res *interp.Result
		if *trail != "" {
			res = interp.ReplayFile(prog, fn, c, *trail)
		} else {
			res = interp.Explore(prog, fn, c)
		}
		results = append(results, res)
		fmt.Fprintf(os.Stderr, "%s: paths=%d viol=%d oblig=%d/%d unk=%d incon=%v complete=%v nodes=%d steps=%d wall=%.1fs solver=%v\n",
			name, res.Paths, len(res.Violations), res.Discharged, res.Obligations, res.UnknownAsserts, res.Inconclusive, res.Complete,
			res.Nodes, res.Steps, res.Wall, res.Solver.Queries)
		for _, e := range res.EngineErrors {
			fmt.Fprintf(os.Stderr, "  ENGINE: %s\n", e)
		}
		seen := map[string]bool{}
		for _, v := range res.Violations {
			if seen[v.Sig()] {
				continue
			}
			seen[v.Sig()] = true
			fmt.Fprintf(os.Stderr, "  VIOL %s  %s inputs=%s\n", v.Sig(), v.Msg, fmtInputs(v.Inputs))
		}
	}
	doc := map[string]interface{}{"load_s": loadS, "results": results}
	b, _ := json.MarshalIndent(doc, "", " ")
	if *out != "" {
		if err := os.WriteFile(*out, b, 0644); err != nil {
			fatal(err)
		}
	} else {
		os.Stdout.Write(b)
	}
}

func fmtInputs(in []interp.InputRec) string {
	var sb strings.Builder
	for i, x := range in {
		if i > 0 {
			sb.WriteByte(' ')
		}
		if x.Bits == 64 {
			fmt.Fprintf(&sb, "%s=%d", x.Name, int64(x.Val))
		} else {
			fmt.Fprintf(&sb, "%s=%d", x.Name, x.Val)
		}
		if sb.Len() > 600 {
			sb.WriteString(" ...")
			break
		}
	}
	return sb.String()
}

func fatal(err error) {
	fmt.Fprintln(os.Stderr, "gosym:", err)
	os.Exit(3)
}
