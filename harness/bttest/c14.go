package bttest

// C14 — table, family and row-range admin changes exactly what it names.
//
// A small registry (three table names over two parents) is driven by a program
// of admin/data requests chosen by vChoice with symbolic row keys, prefixes and
// values; after every request the complete observable state (ListTables of both
// parents, GetTable and ReadRows of every name) is compared with a model.

import (
	"cloud.google.com/go/bigtable"
	btapb "cloud.google.com/go/bigtable/admin/apiv2/adminpb"
	btpb "cloud.google.com/go/bigtable/apiv2/bigtablepb"
	"google.golang.org/grpc/codes"
)

const (
	c14ParentI = "projects/p/instances/i"
	c14ParentJ = "projects/p/instances/i2" // the other parent name is a prefix of this one
)

var c14Parents = []string{c14ParentI, c14ParentI, c14ParentJ}
var c14IDs = []string{"t", "t2", "t"} // one id is a prefix of another
var c14Fams = []string{"f", "g", "h"}

func c14Name(t int) string { return c14Parents[t] + "/tables/" + c14IDs[t] }

type c14Cell struct {
	val   []byte
	alive bool // symbolic
}

type c14Table struct {
	exists bool
	fams   map[string]int32 // family -> max versions of its GC rule (0 = no rule)
	// rows[r][family] : at most one cell (ts 1000) per row and family
	rows [2]map[string]*c14Cell
}

type c14Model struct {
	keys [][]byte // two global symbolic row keys, ascending
	tbl  [3]*c14Table
}

func c14NewTable() *c14Table {
	t := &c14Table{exists: true, fams: map[string]int32{}}
	t.rows[0], t.rows[1] = map[string]*c14Cell{}, map[string]*c14Cell{}
	return t
}

func c14Rule(n int32) *btapb.GcRule {
	if n == 0 {
		return nil
	}
	return &btapb.GcRule{Rule: &btapb.GcRule_MaxNumVersions{MaxNumVersions: n}}
}

func c14RuleOf(cf *btapb.ColumnFamily) int32 {
	if cf == nil || cf.GcRule == nil {
		return 0
	}
	if r, ok := cf.GcRule.Rule.(*btapb.GcRule_MaxNumVersions); ok {
		return r.MaxNumVersions
	}
	return -1
}

// c14Observe compares everything a client can see with the model.
func c14Observe(s *server, m *c14Model, tag string) {
	for pi, parent := range []string{c14ParentI, c14ParentJ} {
		res, err := s.ListTables(vCtx(), &btapb.ListTablesRequest{Parent: parent})
		vAssert(err == nil, tag+":listtables-ok")
		if err != nil {
			continue
		}
		want := 0
		for t := 0; t < 3; t++ {
			if c14Parents[t] != parent || !m.tbl[t].exists {
				continue
			}
			want++
			found := 0
			for _, lt := range res.Tables {
				if lt.Name == c14Name(t) {
					found++
				}
			}
			vAssert(found == 1, tag+":listed-exactly-once")
		}
		vAssert(len(res.Tables) == want, tag+":listtables-exactly-existing")
		_ = pi
	}
	for t := 0; t < 3; t++ {
		mt := m.tbl[t]
		got, err := s.GetTable(vCtx(), &btapb.GetTableRequest{Name: c14Name(t)})
		st := &vReadStream{}
		rerr := s.ReadRows(&btpb.ReadRowsRequest{TableName: c14Name(t)}, st)
		if !mt.exists {
			vAssert(vCodeOf(err) == codes.NotFound, tag+":gettable-notfound")
			vAssert(vCodeOf(rerr) == codes.NotFound, tag+":readrows-notfound")
			continue
		}
		vAssert(err == nil && got != nil, tag+":gettable-ok")
		if err == nil && got != nil {
			vAssert(got.Name == c14Name(t), tag+":gettable-name")
			vAssert(len(got.ColumnFamilies) == len(mt.fams), tag+":families-count")
			for f, rule := range mt.fams {
				cf, ok := got.ColumnFamilies[f]
				vAssert(ok, tag+":family-present")
				if ok {
					vAssert(c14RuleOf(cf) == rule, tag+":family-gc-rule")
				}
			}
		}
		vAssert(rerr == nil, tag+":readrows-ok")
		if rerr != nil {
			continue
		}
		rows, ok := vDecode(st.msgs)
		vAssert(ok, tag+":stream-wellformed")
		if !ok {
			continue
		}
		// every returned row is one of the two keys, ascending, and holds exactly the model's cells
		okAll := true
		for j := range rows {
			if j > 0 {
				okAll = vAnd(okAll, vBytesCmp(rows[j-1].key, rows[j].key) < 0)
			}
			is0, is1 := vBytesEq(rows[j].key, m.keys[0]), vBytesEq(rows[j].key, m.keys[1])
			okAll = vAnd(okAll, vOr(is0, is1))
			for r, isR := range []bool{is0, is1} {
				match := true
				var n int64
				for _, f := range c14Fams {
					c := mt.rows[r][f]
					if c == nil {
						continue
					}
					n += vIteInt64(c.alive, 1, 0)
					found := false
					for _, g := range rows[j].cells {
						if g.fam == f && len(g.val) == len(c.val) {
							found = vOr(found, vAnd(g.ts == 1000, vBytesEq(g.val, c.val)))
						}
					}
					match = vAnd(match, vImplies(c.alive, found))
				}
				match = vAnd(match, n == int64(len(rows[j].cells)))
				okAll = vAnd(okAll, vImplies(isR, match))
			}
		}
		for r := 0; r < 2; r++ {
			present := false
			for _, f := range c14Fams {
				if c := mt.rows[r][f]; c != nil {
					present = vOr(present, c.alive)
				}
			}
			returned := false
			for j := range rows {
				returned = vOr(returned, vBytesEq(rows[j].key, m.keys[r]))
			}
			okAll = vAnd(okAll, returned == present)
		}
		vAssert(okAll, tag+":rows-equal-model")
	}
}

// c14Step issues one request and updates the model.
func c14Step(s *server, m *c14Model, tag string) {
	switch vChoice("op", 0, 5) {
	case 0: // CreateTable
		t := vChoice("create.tbl", 0, 2)
		fsel := vChoice("create.fams", 0, 2)
		cfs := map[string]*btapb.ColumnFamily{}
		want := map[string]int32{}
		switch fsel {
		case 1:
			cfs["f"] = &btapb.ColumnFamily{GcRule: c14Rule(1)}
			want["f"] = 1
		case 2:
			cfs["f"] = &btapb.ColumnFamily{}
			cfs["g"] = &btapb.ColumnFamily{GcRule: c14Rule(2)}
			want["f"], want["g"] = 0, 2
		}
		var tb *btapb.Table
		if fsel > 0 {
			tb = &btapb.Table{ColumnFamilies: cfs}
		}
		res, err := s.CreateTable(vCtx(), &btapb.CreateTableRequest{Parent: c14Parents[t], TableId: c14IDs[t], Table: tb})
		if m.tbl[t].exists {
			vAssert(vCodeOf(err) == codes.AlreadyExists, tag+":create-existing-alreadyexists")
			return
		}
		vAssert(err == nil && res != nil, tag+":create-ok")
		if res != nil {
			vAssert(res.Name == c14Name(t), tag+":create-response-name")
			vAssert(len(res.ColumnFamilies) == len(want), tag+":create-response-families")
		}
		nt := c14NewTable()
		nt.fams = want
		m.tbl[t] = nt
		vReach("c14-create")
	case 1: // DeleteTable
		t := vChoice("delete.tbl", 0, 2)
		_, err := s.DeleteTable(vCtx(), &btapb.DeleteTableRequest{Name: c14Name(t)})
		if !m.tbl[t].exists {
			vAssert(vCodeOf(err) == codes.NotFound, tag+":delete-missing-notfound")
			return
		}
		vAssert(err == nil, tag+":delete-ok")
		m.tbl[t] = &c14Table{}
		vReach("c14-delete")
	case 2: // ModifyColumnFamilies: all modifications or none
		t := []int{0, 2, 1}[vChoice("modify.tbl", 0, vBound("modify-tables", 0, 2))]
		n := vChoice("modify.n", 1, vBound("modify-mods", 2, 3))
		req := &btapb.ModifyColumnFamiliesRequest{Name: c14Name(t)}
		mt := m.tbl[t]
		next := map[string]int32{}
		for f, r := range mt.fams {
			next[f] = r
		}
		bad := false
		var dropped []string
		for i := 0; i < n; i++ {
			fam := c14Fams[vChoice("mod.fam", 0, 2)]
			mod := &btapb.ModifyColumnFamiliesRequest_Modification{Id: fam}
			_, have := next[fam]
			switch vChoice("mod.kind", 0, 2) {
			case 0:
				mod.Mod = &btapb.ModifyColumnFamiliesRequest_Modification_Create{Create: &btapb.ColumnFamily{GcRule: c14Rule(1)}}
				if have {
					bad = true
				}
				next[fam] = 1
			case 1:
				mod.Mod = &btapb.ModifyColumnFamiliesRequest_Modification_Update{Update: &btapb.ColumnFamily{GcRule: c14Rule(2)}}
				if !have {
					bad = true
				}
				next[fam] = 2
			case 2:
				mod.Mod = &btapb.ModifyColumnFamiliesRequest_Modification_Drop{Drop: true}
				if !have {
					bad = true
				}
				delete(next, fam)
				dropped = append(dropped, fam)
			}
			req.Modifications = append(req.Modifications, mod)
		}
		res, err := s.ModifyColumnFamilies(vCtx(), req)
		if !mt.exists {
			vAssert(vCodeOf(err) == codes.NotFound, tag+":modify-missing-notfound")
			return
		}
		vAssert((err != nil) == bad, tag+":modify-error-iff-some-modification-invalid")
		if bad {
			vTag("modify-invalid")
			return // nothing changes
		}
		vAssert(res != nil, tag+":modify-response")
		mt.fams = next
		for _, f := range dropped {
			if _, back := next[f]; back {
				// dropped and re-created in the same request: its old cells are gone
			}
			for r := 0; r < 2; r++ {
				delete(mt.rows[r], f)
			}
		}
		vReach("c14-modify")
	case 3: // DropRowRange
		t := vChoice("drop.tbl", 0, vBound("drop-tables", 1, 2))
		req := &btapb.DropRowRangeRequest{Name: c14Name(t)}
		all := vChoice("drop.all", 0, 1) == 1
		var prefix []byte
		if all {
			req.Target = &btapb.DropRowRangeRequest_DeleteAllDataFromTable{DeleteAllDataFromTable: true}
		} else {
			prefix = vNondetBytes("drop.prefix", vChoice("drop.prefix.len", 0, 2))
			if prefix == nil {
				prefix = []byte{}
			}
			req.Target = &btapb.DropRowRangeRequest_RowKeyPrefix{RowKeyPrefix: prefix}
		}
		_, err := s.DropRowRange(vCtx(), req)
		mt := m.tbl[t]
		if !mt.exists {
			vAssert(vCodeOf(err) == codes.NotFound, tag+":drop-missing-notfound")
			return
		}
		vAssert(err == nil, tag+":drop-ok")
		for r := 0; r < 2; r++ {
			hit := all
			if !all {
				k := m.keys[r]
				if len(prefix) > len(k) {
					hit = false
				} else {
					hit = vBytesEq(k[:len(prefix)], prefix)
				}
			}
			for _, c := range mt.rows[r] {
				c.alive = vAnd(c.alive, vNot(hit))
			}
		}
		vReach("c14-drop")
	case 5: // ReadModifyWriteRow append on a dropped or never created family (or a missing table): rejected
		t := vChoice("rmw.tbl", 0, vBound("set-tables", 0, 2))
		r := vChoice("rmw.row", 0, 1)
		fam := c14Fams[vChoice("rmw.fam", 0, 2)]
		mt := m.tbl[t]
		if _, have := mt.fams[fam]; mt.exists && have {
			return // an accepted append would add a cell the model does not track: covered by C13
		}
		_, err := s.ReadModifyWriteRow(vCtx(), &btpb.ReadModifyWriteRowRequest{TableName: c14Name(t), RowKey: m.keys[r],
			Rules: []*btpb.ReadModifyWriteRule{{FamilyName: fam, ColumnQualifier: []byte("q"), Rule: &btpb.ReadModifyWriteRule_AppendValue{AppendValue: []byte("x")}}}})
		if !mt.exists {
			vAssert(vCodeOf(err) == codes.NotFound, tag+":rmw-missing-notfound")
			return
		}
		vAssert(err != nil, tag+":rmw-rejected-iff-family-unknown")
		vReach("c14-rmw")
	case 4: // MutateRow SetCell
		t := vChoice("set.tbl", 0, vBound("set-tables", 0, 2))
		r := vChoice("set.row", 0, 1)
		fam := c14Fams[vChoice("set.fam", 0, 2)]
		val := vNondetBytes("set.val", 1)
		_, err := s.MutateRow(vCtx(), &btpb.MutateRowRequest{TableName: c14Name(t), RowKey: m.keys[r], Mutations: []*btpb.Mutation{
			{Mutation: &btpb.Mutation_SetCell_{SetCell: &btpb.Mutation_SetCell{FamilyName: fam, ColumnQualifier: []byte("q"), TimestampMicros: 1000, Value: val}}}}})
		mt := m.tbl[t]
		if !mt.exists {
			vAssert(vCodeOf(err) == codes.NotFound, tag+":mutate-missing-notfound")
			return
		}
		_, have := mt.fams[fam]
		vAssert((err != nil) == !have, tag+":write-rejected-iff-family-unknown")
		if have && err == nil {
			mt.rows[r][fam] = &c14Cell{val: val, alive: true}
		}
		vReach("c14-set")
	}
}

func H_C14_admin() {
	eng := vChoice("engine", 0, vBound("engines", 0, 1))
	s := vNewServer(eng, func() bigtable.Timestamp { return 0 })
	m := &c14Model{keys: c01Keys("key", 2, vBound("keylen", 2, 2))}
	for t := range m.tbl {
		m.tbl[t] = &c14Table{}
	}
	// initial state built through the real API: table 0 with f,g and data in both rows; table 2 with f and one row
	mk := func(t int, fams ...string) {
		cfs := map[string]*btapb.ColumnFamily{}
		nt := c14NewTable()
		for _, f := range fams {
			cfs[f] = &btapb.ColumnFamily{}
			nt.fams[f] = 0
		}
		_, err := s.CreateTable(vCtx(), &btapb.CreateTableRequest{Parent: c14Parents[t], TableId: c14IDs[t], Table: &btapb.Table{ColumnFamilies: cfs}})
		if err != nil {
			vFatal("setup CreateTable")
		}
		m.tbl[t] = nt
	}
	put := func(t, r int, fam string) {
		val := vNondetBytes("init.val", 1)
		_, err := s.MutateRow(vCtx(), &btpb.MutateRowRequest{TableName: c14Name(t), RowKey: m.keys[r], Mutations: []*btpb.Mutation{
			{Mutation: &btpb.Mutation_SetCell_{SetCell: &btpb.Mutation_SetCell{FamilyName: fam, ColumnQualifier: []byte("q"), TimestampMicros: 1000, Value: val}}}}})
		if err != nil {
			vFatal("setup MutateRow")
		}
		m.tbl[t].rows[r][fam] = &c14Cell{val: val, alive: true}
	}
	mk(0, "f", "g")
	put(0, 0, "f")
	put(0, 0, "g")
	put(0, 1, "f")
	mk(2, "f")
	put(2, 1, "f")
	c14Observe(s, m, "init")
	k := vBound("steps", 2, 3)
	for i := 0; i < k; i++ {
		c14Step(s, m, "step")
		c14Observe(s, m, "after")
	}
}

// H_C14_create_race: two CreateTable requests for the same new name overlap, all interleavings:
// exactly one creates the table, the other answers AlreadyExists, and the table is the winner's.
func H_C14_create_race() {
	eng := vChoice("engine", 0, vBound("engines", 0, 1))
	s := vNewServer(eng, func() bigtable.Timestamp { return 0 })
	var errs [2]error
	fams := []string{"f", "g"}
	for i := 0; i < 2; i++ {
		i := i
		vGo(func() {
			_, errs[i] = s.CreateTable(vCtx(), &btapb.CreateTableRequest{Parent: c14ParentI, TableId: "t", Table: &btapb.Table{
				ColumnFamilies: map[string]*btapb.ColumnFamily{fams[i]: {}}}})
		})
	}
	vJoin()
	wins := 0
	for i := 0; i < 2; i++ {
		if errs[i] == nil {
			wins++
			got, err := s.GetTable(vCtx(), &btapb.GetTableRequest{Name: c14Name(0)})
			vAssert(err == nil && got != nil && len(got.ColumnFamilies) == 1 && got.ColumnFamilies[fams[i]] != nil, "create-race:table-is-the-winner's")
		} else {
			vAssert(vCodeOf(errs[i]) == codes.AlreadyExists, "create-race:loser-gets-alreadyexists")
		}
	}
	vAssert(wins == 1, "create-race:exactly-one-create-succeeds")
	vReach("c14-create-race")
}

func init() {
	vHarnesses["H_C14_create_race"] = H_C14_create_race
	vHarnesses["H_C14_admin"] = H_C14_admin
}
