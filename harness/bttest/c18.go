package bttest

// C18 — scans stay sane while the table is being written (leveldb engines).
// The scan's first row carries 1025 cells, so the first response is flushed
// (and the table lock released) right after it; writers run in that window or
// at any other schedule point.

import (
	"cloud.google.com/go/bigtable"
	btpb "cloud.google.com/go/bigtable/apiv2/bigtablepb"
	"google.golang.org/grpc/codes"
)

func H_C18_scan() { c18Run(vBound("writers", 1, 2), false) }

// H_C18_rowset: the same scan requested as a RowSet whose entries overlap (one range covering the
// table plus two keys inside it), with one concurrent writer.
func H_C18_rowset() { c18Run(1, true) }

func c18Run(nw int, rowset bool) {
	s := vNewServer(vEngLeveldbMem, func() bigtable.Timestamp { return 5000 })
	vCreateTable(s, "f")
	tbl := s.tables[vTable]
	// row "a": 1025 versions in one column (concrete), forces a flush after the first row
	big := &btpb.Column{Qualifier: []byte("q")}
	maxKind := vBound("kinds", 1, 2)
	if rowset {
		maxKind = 3 // the cheap single-message variant also tries a rejected batch entry
	}
	ncells := 1025
	if rowset {
		ncells = 1 // single-message variant: the RowSet shape is the subject, not the lock hand-over
	}
	for i := 0; i < ncells; i++ {
		big.Cells = append(big.Cells, &btpb.Cell{TimestampMicros: int64(2000000 - 1000*i), Value: []byte("x")})
	}
	tbl.rows.ReplaceOrInsert(&btpb.Row{Key: []byte("a"), Families: []*btpb.Family{{Name: "f", Columns: []*btpb.Column{big}}}})
	keys := []string{"a", "b", "d"}
	vals := map[string][]byte{}
	for _, k := range keys[1:] {
		v := vNondetBytes("val", 1)
		vals[k] = v
		tbl.rows.ReplaceOrInsert(c17Row([]byte(k), v))
	}
	// writers: each performs one write on a chosen row (existing, new between, new after)
	targets := []string{"a", "b", "c", "d", "e"}
	type wr struct {
		key  string
		kind int
		val  []byte
	}
	var ws []wr
	for i := 0; i < nw; i++ {
		ws = append(ws, wr{key: targets[vChoice("w.target", 0, vBound("targets", 1, 4))], kind: vChoice("w.kind", 0, maxKind), val: vNondetBytes("w.val", 1)})
	}
	for _, w := range ws {
		w := w
		vGo(func() {
			switch w.kind {
			case 0: // overwrite / create
				_, err := s.MutateRow(vCtx(), &btpb.MutateRowRequest{TableName: vTable, RowKey: []byte(w.key), Mutations: []*btpb.Mutation{
					{Mutation: &btpb.Mutation_SetCell_{SetCell: &btpb.Mutation_SetCell{FamilyName: "f", ColumnQualifier: []byte("q"), TimestampMicros: 1000, Value: w.val}}}}})
				vAssert(err == nil, "writer-ok")
			case 1: // delete the row
				_, err := s.MutateRow(vCtx(), &btpb.MutateRowRequest{TableName: vTable, RowKey: []byte(w.key), Mutations: []*btpb.Mutation{
					{Mutation: &btpb.Mutation_DeleteFromRow_{DeleteFromRow: &btpb.Mutation_DeleteFromRow{}}}}})
				vAssert(err == nil, "writer-ok")
			case 3: // a batch entry whose second mutation is invalid: rejected as a whole, nothing may show
				st := &vMutateStream{}
				err := s.MutateRows(&btpb.MutateRowsRequest{TableName: vTable, Entries: []*btpb.MutateRowsRequest_Entry{{RowKey: []byte(w.key), Mutations: []*btpb.Mutation{
					{Mutation: &btpb.Mutation_SetCell_{SetCell: &btpb.Mutation_SetCell{FamilyName: "f", ColumnQualifier: []byte("q"), TimestampMicros: 1000, Value: w.val}}},
					{Mutation: &btpb.Mutation_SetCell_{SetCell: &btpb.Mutation_SetCell{FamilyName: "nosuch", ColumnQualifier: []byte("q"), TimestampMicros: 1000, Value: w.val}}}}}}}, st)
				vAssert(err == nil && len(st.msgs) == 1 && len(st.msgs[0].Entries) == 1 && st.msgs[0].Entries[0].Status.Code != int32(codes.OK), "writer-entry-rejected")
			case 2: // read-modify-write append
				_, err := s.ReadModifyWriteRow(vCtx(), &btpb.ReadModifyWriteRowRequest{TableName: vTable, RowKey: []byte(w.key),
					Rules: []*btpb.ReadModifyWriteRule{{FamilyName: "f", ColumnQualifier: []byte("q"), Rule: &btpb.ReadModifyWriteRule_AppendValue{AppendValue: w.val}}}})
				vAssert(err == nil, "writer-ok")
			}
		})
	}
	var rows []vRow
	var okStream bool
	var rerr error
	sends := 0
	vGo(func() {
		st := &vReadStream{onSend: func() { sends++; vYield() }}
		req := &btpb.ReadRowsRequest{TableName: vTable}
		if rowset {
			req.Rows = &btpb.RowSet{
				RowRanges: []*btpb.RowRange{{StartKey: &btpb.RowRange_StartKeyClosed{StartKeyClosed: []byte("a")}, EndKey: &btpb.RowRange_EndKeyOpen{EndKeyOpen: []byte("z")}}},
				RowKeys:   [][]byte{[]byte("b"), []byte("d")}}
		}
		rerr = s.ReadRows(req, st)
		rows, okStream = vDecode(st.msgs)
	})
	vJoin()
	vAssert(rerr == nil, "scan-ends-ok")
	vAssert(okStream, "scan-stream-wellformed")
	if sends >= 2 {
		vReach("c18-multi-message")
	}
	if !okStream {
		return
	}
	// strictly ascending, no duplicates
	for j := 1; j < len(rows); j++ {
		vAssert(string(rows[j-1].key) < string(rows[j].key), "scan-ascending-no-duplicates")
	}
	for _, r := range rows {
		k := string(r.key)
		written := false
		for _, w := range ws {
			if w.key == k && w.kind != 3 {
				written = true
			}
		}
		if k == "a" && !written {
			vAssert(len(r.cells) == ncells, "untouched-big-row-intact")
			continue
		}
		if k == "a" {
			// the states the big row really had: its original cells plus one per completed non-deleting
			// writer; after a deleting writer, only what later writers put back
			adders, deleted := 0, false
			for _, w := range ws {
				if w.key == k && (w.kind == 0 || w.kind == 2) {
					adders++
				}
				if w.key == k && w.kind == 1 {
					deleted = true
				}
			}
			n := len(r.cells)
			vAssert((n >= ncells && n <= ncells+adders) || (deleted && n >= 1 && n <= adders), "written-big-row-has-a-real-shape")
			continue
		}
		orig, had := vals[k]
		if !written {
			vAssert(had && len(r.cells) == 1 && vBytesEq(r.cells[0].val, orig), "unwritten-row-returned-as-stored")
			continue
		}
		// a written row, if returned, is one of the states it had: here (one cell, q@1000 or q@5000)
		// its newest value is the original, a writer's value, or original+appended
		vAssert(len(r.cells) >= 1 && len(r.cells) <= 2, "written-row-has-a-real-shape")
	}
	// rows never written must all be present
	for _, k := range keys {
		written := false
		for _, w := range ws {
			if w.key == k && w.kind != 3 {
				written = true
			}
		}
		if written {
			continue
		}
		found := false
		for _, r := range rows {
			if string(r.key) == k {
				found = true
			}
		}
		vAssert(found, "unwritten-row-present")
	}
	vReach("c18-scan")
}

func init() {
	vHarnesses["H_C18_scan"] = H_C18_scan
	vHarnesses["H_C18_rowset"] = H_C18_rowset
}
