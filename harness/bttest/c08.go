package bttest

// C08 — disk storage recovers exactly the acknowledged state after a crash
// (reduced claim: the persistence protocol over a file-system model).
//
// The real NewServerWithOptions / LeveldbDiskStorage / handlers run over
//   - a path -> bytes model of the file system behind os.* and filepath.Walk,
//   - the goleveldb stub keyed by path (each Put/Delete one atomic effect).
// A crash point (solver-free choice) stops the run after the c-th durable
// effect; the real start-up path then runs on what survived.

import (
	"net"
	"os"
	"sort"
	"strings"

	"cloud.google.com/go/bigtable"
	btapb "cloud.google.com/go/bigtable/admin/apiv2/adminpb"
	btpb "cloud.google.com/go/bigtable/apiv2/bigtablepb"
	"google.golang.org/grpc"
	"google.golang.org/grpc/codes"
)

type vCrash struct{}

var (
	vFS      map[string][]byte // file path -> content
	vDirs    map[string]bool
	vEffects int
	vCrashAt int // crash when vEffects reaches this value (-1 = never)
	vCrashed bool
)

// vEffect is called before every durable effect.
func vEffect() {
	if vCrashAt >= 0 && vEffects >= vCrashAt {
		vCrashed = true
		panic(vCrash{})
	}
	vEffects++
}

func stubMkdirAll(path string, perm os.FileMode) error {
	vEffect()
	if vDirs == nil {
		vDirs = map[string]bool{}
	}
	vDirs[path] = true
	return nil
}
func stubWriteFile(name string, data []byte, perm os.FileMode) error {
	if vFS == nil {
		vFS = map[string][]byte{}
	}
	vEffect() // create / truncate
	vFS[name] = []byte{}
	vEffect() // content
	vFS[name] = data
	return nil
}

// open files: each Write is one durable effect; creating / truncating is one as well
type vOpen struct {
	path   string
	off    int
	append bool
}

var vOpenTab map[*os.File]*vOpen

func stubOpenFile(name string, flag int, perm os.FileMode) (*os.File, error) {
	if vFS == nil {
		vFS = map[string][]byte{}
	}
	_, ok := vFS[name]
	if !ok && flag&os.O_CREATE == 0 {
		return nil, os.ErrNotExist
	}
	if ok && flag&(os.O_CREATE|os.O_EXCL) == os.O_CREATE|os.O_EXCL {
		return nil, os.ErrExist
	}
	if !ok || flag&os.O_TRUNC != 0 {
		vEffect()
		vFS[name] = []byte{}
	}
	f := new(os.File)
	if vOpenTab == nil {
		vOpenTab = map[*os.File]*vOpen{}
	}
	vOpenTab[f] = &vOpen{path: name, append: flag&os.O_APPEND != 0}
	return f, nil
}
func stubCreate(name string) (*os.File, error) {
	return stubOpenFile(name, os.O_RDWR|os.O_CREATE|os.O_TRUNC, 0666)
}
func stubFileWrite(f *os.File, b []byte) (int, error) {
	o := vOpenTab[f]
	if o == nil {
		return 0, os.ErrClosed
	}
	old, ok := vFS[o.path]
	if !ok {
		return len(b), nil
	}
	if o.append {
		o.off = len(old)
	}
	data := append([]byte(nil), old...)
	for len(data) < o.off+len(b) {
		data = append(data, 0)
	}
	copy(data[o.off:], b)
	o.off += len(b)
	vEffect()
	vFS[o.path] = data
	return len(b), nil
}
func stubFileSync(f *os.File) error  { return nil }
func stubFileClose(f *os.File) error { return nil }
func stubFileTruncate(f *os.File, size int64) error {
	o := vOpenTab[f]
	if o == nil {
		return os.ErrClosed
	}
	if old, ok := vFS[o.path]; ok {
		data := append([]byte(nil), old...)
		for int64(len(data)) < size {
			data = append(data, 0)
		}
		vEffect()
		vFS[o.path] = data[:size]
	}
	return nil
}

func stubReadFile(name string) ([]byte, error) {
	if d, ok := vFS[name]; ok {
		return d, nil
	}
	return nil, os.ErrNotExist
}
func stubRename(oldpath, newpath string) error {
	d, ok := vFS[oldpath]
	if !ok {
		return os.ErrNotExist
	}
	vEffect()
	vFS[newpath] = d
	delete(vFS, oldpath)
	return nil
}

// stubStat: a path exists if it is a file, a created directory, a database directory,
// or a prefix of one of those. Only the error result is used by callers.
func stubStat(name string) (os.FileInfo, error) {
	if _, ok := vFS[name]; ok {
		return nil, nil
	}
	if vDirs[name] {
		return nil, nil
	}
	if _, ok := vDisk[name]; ok {
		return nil, nil
	}
	for p := range vFS {
		if strings.HasPrefix(p, name+"/") {
			return nil, nil
		}
	}
	return nil, os.ErrNotExist
}

func stubRemove(name string) error {
	if _, ok := vFS[name]; !ok {
		return os.ErrNotExist
	}
	vEffect()
	delete(vFS, name)
	return nil
}
func stubRemoveAll(path string) error {
	vEffect()
	for p := range vFS {
		if p == path || strings.HasPrefix(p, path+"/") {
			delete(vFS, p)
		}
	}
	for p := range vDisk {
		if p == path || strings.HasPrefix(p, path+"/") {
			delete(vDisk, p)
		}
	}
	for p := range vDirs {
		if p == path || strings.HasPrefix(p, path+"/") {
			delete(vDirs, p)
		}
	}
	return nil
}
func stubWalk(root string, fn func(path string, info os.FileInfo, err error) error) error {
	var paths []string
	for p := range vFS {
		if strings.HasPrefix(p, root) {
			paths = append(paths, p)
		}
	}
	sort.Strings(paths)
	for _, p := range paths {
		if err := fn(p, nil, nil); err != nil {
			return err
		}
	}
	return nil
}

type vListener struct{}
type vAddr struct{}

func (vAddr) Network() string               { return "tcp" }
func (vAddr) String() string                { return "127.0.0.1:0" }
func (vListener) Accept() (net.Conn, error) { return nil, os.ErrClosed }
func (vListener) Close() error              { return nil }
func (vListener) Addr() net.Addr            { return vAddr{} }

func stubListen(network, address string) (net.Listener, error)       { return vListener{}, nil }
func stubGrpcNewServer(opt ...grpc.ServerOption) *grpc.Server        { return new(grpc.Server) }
func stubGrpcServe(s *grpc.Server, l net.Listener) error             { return nil }
func stubRegI(s *grpc.Server, srv btapb.BigtableInstanceAdminServer) {}
func stubRegT(s *grpc.Server, srv btapb.BigtableTableAdminServer)    {}
func stubRegB(s *grpc.Server, srv btpb.BigtableServer)               {}
func stubGcloop(s *server)                                           {}

func c08Stubs() map[string]interface{} {
	return map[string]interface{}{
		"os.MkdirAll":                            stubMkdirAll,
		"os.WriteFile":                           stubWriteFile,
		"os.ReadFile":                            stubReadFile,
		"os.OpenFile":                            stubOpenFile,
		"os.Create":                              stubCreate,
		"(*os.File).Write":                       stubFileWrite,
		"(*os.File).Sync":                        stubFileSync,
		"(*os.File).Close":                       stubFileClose,
		"(*os.File).Truncate":                    stubFileTruncate,
		"os.Rename":                              stubRename,
		"os.RemoveAll":                           stubRemoveAll,
		"os.Remove":                              stubRemove,
		"os.Stat":                                stubStat,
		"path/filepath.Walk":                     stubWalk,
		"net.Listen":                             stubListen,
		"google.golang.org/grpc.NewServer":       stubGrpcNewServer,
		"(*google.golang.org/grpc.Server).Serve": stubGrpcServe,
		"cloud.google.com/go/bigtable/admin/apiv2/adminpb.RegisterBigtableInstanceAdminServer": stubRegI,
		"cloud.google.com/go/bigtable/admin/apiv2/adminpb.RegisterBigtableTableAdminServer":    stubRegT,
		"cloud.google.com/go/bigtable/apiv2/bigtablepb.RegisterBigtableServer":                 stubRegB,
		"(*github.com/fullstorydev/emulators/bigtable/bttest.server).gcloop":                   stubGcloop,
	}
}

// the model of acknowledged state: one table name, two rows, families f/g, one cell per (row, family)
type c08Model struct {
	exists bool
	fams   map[string]bool
	rules  map[string]int32   // family -> max versions of its GC rule (0 = none)
	cells  [2]map[string]byte // row -> family -> value
}

func (m c08Model) clone() c08Model {
	n := c08Model{exists: m.exists, fams: map[string]bool{}, rules: map[string]int32{}}
	for f := range m.fams {
		n.fams[f] = true
	}
	for f, r := range m.rules {
		n.rules[f] = r
	}
	for r := 0; r < 2; r++ {
		n.cells[r] = map[string]byte{}
		for f, v := range m.cells[r] {
			n.cells[r][f] = v
		}
	}
	return n
}

var c08Keys = []string{"a", "b"}

// c08Matches compares what a client sees with a model; returns one bool.
func c08Matches(s *server, m c08Model) bool {
	got, err := s.GetTable(vCtx(), &btapb.GetTableRequest{Name: vTable})
	if !m.exists {
		return vCodeOf(err) == codes.NotFound
	}
	if err != nil || got == nil || len(got.ColumnFamilies) != len(m.fams) {
		return false
	}
	for f := range m.fams {
		cf, ok := got.ColumnFamilies[f]
		if !ok || c14RuleOf(cf) != m.rules[f] {
			return false
		}
	}
	st := &vReadStream{}
	if s.ReadRows(&btpb.ReadRowsRequest{TableName: vTable}, st) != nil {
		return false
	}
	rows, ok := vDecode(st.msgs)
	if !ok {
		return false
	}
	want := 0
	for r := 0; r < 2; r++ {
		if len(m.cells[r]) > 0 {
			want++
		}
	}
	if len(rows) != want {
		return false
	}
	for _, row := range rows {
		r := -1
		for i, k := range c08Keys {
			if string(row.key) == k {
				r = i
			}
		}
		if r < 0 || len(row.cells) != len(m.cells[r]) {
			return false
		}
		for _, c := range row.cells {
			v, ok := m.cells[r][c.fam]
			if !ok || len(c.val) != 1 || c.val[0] != v {
				return false
			}
		}
	}
	return true
}

func c08Start(root string) *server {
	srv, err := NewServerWithOptions("localhost:0", Options{Storage: LeveldbDiskStorage{Root: root}, Clock: func() bigtable.Timestamp { return 0 }})
	if err != nil || srv == nil {
		vFatal("server start failed")
	}
	return srv.s
}

// c08Op picks one request; it returns the call, the model after it is acknowledged and a name.
func c08Op(s *server, m c08Model, i int) (func() error, c08Model, string) {
	next := m.clone()
	var run func() error
	opName := "op"
	switch vChoice("op", 0, 4) {
	case 0:
		run = func() error {
			_, err := s.CreateTable(vCtx(), &btapb.CreateTableRequest{Parent: vParent, TableId: "t", Table: &btapb.Table{
				ColumnFamilies: map[string]*btapb.ColumnFamily{"f": {}}}})
			return err
		}
		if !m.exists {
			next = c08Model{exists: true, fams: map[string]bool{"f": true}, rules: map[string]int32{}}
			next.cells[0], next.cells[1] = map[string]byte{}, map[string]byte{}
		}
	case 1:
		run = func() error { _, err := s.DeleteTable(vCtx(), &btapb.DeleteTableRequest{Name: vTable}); return err }
		if m.exists {
			next = c08Model{fams: map[string]bool{}, rules: map[string]int32{}}
			next.cells[0], next.cells[1] = map[string]byte{}, map[string]byte{}
		}
	case 2:
		mk := vChoice("modify.kind", 0, 2) // 0 create g, 1 drop f, 2 update f's GC rule
		drop := mk == 1
		run = func() error {
			mod := &btapb.ModifyColumnFamiliesRequest_Modification{Id: "g", Mod: &btapb.ModifyColumnFamiliesRequest_Modification_Create{Create: &btapb.ColumnFamily{}}}
			if drop {
				mod = &btapb.ModifyColumnFamiliesRequest_Modification{Id: "f", Mod: &btapb.ModifyColumnFamiliesRequest_Modification_Drop{Drop: true}}
			}
			if mk == 2 {
				mod = &btapb.ModifyColumnFamiliesRequest_Modification{Id: "f", Mod: &btapb.ModifyColumnFamiliesRequest_Modification_Update{Update: &btapb.ColumnFamily{GcRule: c14Rule(5)}}}
			}
			_, err := s.ModifyColumnFamilies(vCtx(), &btapb.ModifyColumnFamiliesRequest{Name: vTable, Modifications: []*btapb.ModifyColumnFamiliesRequest_Modification{mod}})
			return err
		}
		if m.exists {
			if drop && m.fams["f"] {
				delete(next.fams, "f")
				delete(next.rules, "f")
				delete(next.cells[0], "f")
				delete(next.cells[1], "f")
			} else if mk == 0 && !m.fams["g"] {
				next.fams["g"] = true
			} else if mk == 2 && m.fams["f"] {
				next.rules["f"] = 5
			}
		}
	case 3:
		r := vChoice("set.row", 0, 1)
		fam := []string{"f", "g"}[vChoice("set.fam", 0, 1)]
		val := byte('0' + i)
		run = func() error {
			_, err := s.MutateRow(vCtx(), &btpb.MutateRowRequest{TableName: vTable, RowKey: []byte(c08Keys[r]), Mutations: []*btpb.Mutation{
				{Mutation: &btpb.Mutation_SetCell_{SetCell: &btpb.Mutation_SetCell{FamilyName: fam, ColumnQualifier: []byte("q"), TimestampMicros: 1000, Value: []byte{val}}}}}})
			return err
		}
		if m.exists && m.fams[fam] {
			next.cells[r][fam] = val
		}
	case 4:
		sel := vChoice("drop.kind", 0, 2) // 0: prefix "a" (one row), 1: all rows, 2: empty prefix (every row, deleted one by one)
		all := sel == 1
		run = func() error {
			pfx := []byte("a")
			if sel == 2 {
				pfx = []byte{}
			}
			req := &btapb.DropRowRangeRequest{Name: vTable, Target: &btapb.DropRowRangeRequest_RowKeyPrefix{RowKeyPrefix: pfx}}
			if all {
				req.Target = &btapb.DropRowRangeRequest_DeleteAllDataFromTable{DeleteAllDataFromTable: true}
			}
			_, err := s.DropRowRange(vCtx(), req)
			return err
		}
		if m.exists {
			next.cells[0] = map[string]byte{}
			if all || sel == 2 {
				next.cells[1] = map[string]byte{}
			}
			if sel == 2 {
				opName = "DropRowRange-by-prefix-matching-several-rows"
			}
		}
	}
	return run, next, opName
}

func H_C08_crash() {
	vInlineGo(true) // the listener and GC-timer goroutines are inert stubs here
	vCrashAt = -1
	s := c08Start("/data")
	m := c08Model{fams: map[string]bool{}, rules: map[string]int32{}}
	m.cells[0], m.cells[1] = map[string]byte{}, map[string]byte{}
	if vChoice("preseeded", 0, 1) == 1 {
		// acknowledged history before the program: a table with family f and a cell in both rows
		_, err := s.CreateTable(vCtx(), &btapb.CreateTableRequest{Parent: vParent, TableId: "t", Table: &btapb.Table{
			ColumnFamilies: map[string]*btapb.ColumnFamily{"f": {}}}})
		if err != nil {
			vFatal("seed CreateTable")
		}
		m.exists, m.fams["f"] = true, true
		for r, k := range c08Keys {
			_, err := s.MutateRow(vCtx(), &btpb.MutateRowRequest{TableName: vTable, RowKey: []byte(k), Mutations: []*btpb.Mutation{
				{Mutation: &btpb.Mutation_SetCell_{SetCell: &btpb.Mutation_SetCell{FamilyName: "f", ColumnQualifier: []byte("q"), TimestampMicros: 1000, Value: []byte{'s'}}}}}})
			if err != nil {
				vFatal("seed MutateRow")
			}
			m.cells[r]["f"] = 's'
		}
	}
	k := vBound("requests", 2, 3)
	crashReq := vChoice("crash.request", 0, k) // k = no crash, clean stop after the program
	var before, after c08Model
	inflight := false
	for i := 0; i < k && !vCrashed; i++ {
		run, next, opName := c08Op(s, m, i)
		if i == crashReq {
			// crash inside this request, after a chosen number of its durable effects
			vCrashAt = vEffects + vChoice("crash.after-effects", 0, 6)
			before, after = m, next
			inflight = true
			vTag("crash-in:" + opName)
		}
		func() {
			defer func() {
				if r := recover(); r != nil {
					if _, ok := r.(vCrash); !ok {
						panic(r)
					}
				}
			}()
			run()
		}()
		if !vCrashed {
			m = next
			if i == crashReq {
				inflight = false // the request completed before the crash point was reached
				vCrashAt = -1
				crashReq = -1
			}
		}
	}
	// stop (cleanly or by the crash) and start again on the same directory
	vCrashAt = -1
	vCrashed = false
	s2 := c08Start("/data")
	if inflight {
		mb, ma := c08Matches(s2, before), c08Matches(s2, after)
		vAssert(mb || ma, "in-flight-request-wholly-present-or-wholly-absent")
		vReach("c08-crash")
		if mb {
			m = before
		} else if ma {
			m = after
		} else {
			return
		}
	} else {
		vAssert(c08Matches(s2, m), "restart-serves-exactly-the-acknowledged-state")
		vReach("c08-clean")
	}
	// the recovered server keeps serving: one more acknowledged request, then another restart
	// (whatever the crash left behind - temporary files, half-written directories - must not
	// leak into later acknowledged state)
	run, next, _ := c08Op(s2, m, 9)
	run()
	m = next
	vAssert(c08Matches(s2, m), "after-recovery:request-takes-effect")
	s3 := c08Start("/data")
	vAssert(c08Matches(s3, m), "after-recovery:restart-serves-exactly-the-acknowledged-state")
	// a further restart changes nothing
	s4 := c08Start("/data")
	vAssert(c08Matches(s4, m), "repeated-restart-stable")
}

// H_C08_reopen: requests served by a server that was started on existing data: they take effect
// at once and survive the next restart exactly like requests on tables created in this process.
func H_C08_reopen() {
	vInlineGo(true)
	vCrashAt = -1
	s := c08Start("/data")
	m := c08Model{exists: true, fams: map[string]bool{"f": true}, rules: map[string]int32{}}
	m.cells[0], m.cells[1] = map[string]byte{}, map[string]byte{}
	_, err := s.CreateTable(vCtx(), &btapb.CreateTableRequest{Parent: vParent, TableId: "t", Table: &btapb.Table{
		ColumnFamilies: map[string]*btapb.ColumnFamily{"f": {}}}})
	if err != nil {
		vFatal("seed CreateTable")
	}
	for r, k := range c08Keys {
		_, err := s.MutateRow(vCtx(), &btpb.MutateRowRequest{TableName: vTable, RowKey: []byte(k), Mutations: []*btpb.Mutation{
			{Mutation: &btpb.Mutation_SetCell_{SetCell: &btpb.Mutation_SetCell{FamilyName: "f", ColumnQualifier: []byte("q"), TimestampMicros: 1000, Value: []byte{'s'}}}}}})
		if err != nil {
			vFatal("seed MutateRow")
		}
		m.cells[r]["f"] = 's'
	}
	s2 := c08Start("/data")
	vAssert(c08Matches(s2, m), "reopen:restart-serves-the-acknowledged-state")
	k := vBound("reopen-requests", 2, 3)
	for i := 0; i < k; i++ {
		run, next, _ := c08Op(s2, m, i)
		run()
		m = next
		vAssert(c08Matches(s2, m), "reopen:request-on-a-reopened-table-takes-effect")
	}
	s3 := c08Start("/data")
	vAssert(c08Matches(s3, m), "reopen:restart-serves-exactly-the-acknowledged-state")
	vReach("c08-reopen")
}

func init() {
	vHarnesses["H_C08_reopen"] = H_C08_reopen
	vHarnesses["H_C08_crash"] = H_C08_crash
}
