package bttest

// C20 (Bigtable part) — no request or request mix can crash or wedge the service.

import (
	"cloud.google.com/go/bigtable"
	btapb "cloud.google.com/go/bigtable/admin/apiv2/adminpb"
	btpb "cloud.google.com/go/bigtable/apiv2/bigtablepb"
	"google.golang.org/grpc/codes"
)

// c20Call runs f and reports whether it panicked.
func c20Call(f func() error) (err error, panicked bool) {
	defer func() {
		if r := recover(); r != nil {
			panicked = true
		}
	}()
	return f(), false
}

func c20Seeded() *server {
	s := vNewServer(vChoice("engine", 0, vBound("engines", 0, 1)), func() bigtable.Timestamp { return 5000 })
	vCreateTable(s, "f")
	s.tables[vTable].rows.ReplaceOrInsert(c17Row([]byte("r"), []byte("v")))
	return s
}

// H_C20_bt_inputs: every RPC with absent sub-messages, missing tables and extreme scalars.
func H_C20_bt_inputs() {
	s := c20Seeded()
	name := vTable
	if vChoice("table", 0, 1) == 1 {
		name = vParent + "/tables/missing"
	}
	n32 := vNondetInt32("n32")
	n64 := vNondetInt64("n64")
	var err error
	var panicked bool
	wantNotFound := name != vTable
	op := vChoice("rpc", 0, 15)
	switch op {
	case 0:
		err, panicked = c20Call(func() error {
			id := []string{"x", ""}[vChoice("create.table-id", 0, 1)]
			_, e := s.CreateTable(vCtx(), &btapb.CreateTableRequest{Parent: vParent, TableId: id}) // Table absent
			return e
		})
		wantNotFound = false
	case 1:
		err, panicked = c20Call(func() error { _, e := s.ListTables(vCtx(), &btapb.ListTablesRequest{}); return e })
		wantNotFound = false
	case 2:
		err, panicked = c20Call(func() error { _, e := s.GetTable(vCtx(), &btapb.GetTableRequest{Name: name}); return e })
	case 3:
		err, panicked = c20Call(func() error { _, e := s.DeleteTable(vCtx(), &btapb.DeleteTableRequest{Name: name}); return e })
	case 4: // modification without a oneof payload, or an empty list
		mods := []*btapb.ModifyColumnFamiliesRequest_Modification{{Id: "f"}}
		if vChoice("mods.empty", 0, 1) == 1 {
			mods = nil
		}
		err, panicked = c20Call(func() error {
			_, e := s.ModifyColumnFamilies(vCtx(), &btapb.ModifyColumnFamiliesRequest{Name: name, Modifications: mods})
			return e
		})
	case 5: // DropRowRange without a target
		err, panicked = c20Call(func() error { _, e := s.DropRowRange(vCtx(), &btapb.DropRowRangeRequest{Name: name}); return e })
	case 6:
		err, panicked = c20Call(func() error {
			_, e := s.GenerateConsistencyToken(vCtx(), &btapb.GenerateConsistencyTokenRequest{Name: name})
			return e
		})
	case 7:
		err, panicked = c20Call(func() error {
			_, e := s.CheckConsistency(vCtx(), &btapb.CheckConsistencyRequest{Name: name, ConsistencyToken: "bogus"})
			return e
		})
		if name == vTable {
			vAssert(err != nil, "wrong-token-rejected")
		}
	case 8: // ReadRows: range without bounds, filter without payload, extreme limit
		req := &btpb.ReadRowsRequest{TableName: name, RowsLimit: n64, Rows: &btpb.RowSet{RowRanges: []*btpb.RowRange{{}}}}
		switch vChoice("filter.shape", 0, 4) {
		case 1:
			req.Filter = &btpb.RowFilter{} // no oneof set
		case 2:
			req.Filter = &btpb.RowFilter{Filter: &btpb.RowFilter_Condition_{Condition: &btpb.RowFilter_Condition{}}}
		case 3:
			req.Filter = &btpb.RowFilter{Filter: &btpb.RowFilter_CellsPerRowLimitFilter{CellsPerRowLimitFilter: n32}}
		case 4:
			req.Filter = &btpb.RowFilter{Filter: &btpb.RowFilter_Chain_{Chain: &btpb.RowFilter_Chain{}}}
		}
		err, panicked = c20Call(func() error { return s.ReadRows(req, &vReadStream{}) })
	case 9: // MutateRow: mutation without payload
		err, panicked = c20Call(func() error {
			_, e := s.MutateRow(vCtx(), &btpb.MutateRowRequest{TableName: name, RowKey: []byte("r"), Mutations: []*btpb.Mutation{{}}})
			return e
		})
		if name == vTable {
			vAssert(err != nil, "empty-mutation-rejected")
		}
	case 10: // MutateRows: no entries / entry without mutations / empty row key
		var ents []*btpb.MutateRowsRequest_Entry
		switch vChoice("entries", 0, 2) {
		case 1:
			ents = []*btpb.MutateRowsRequest_Entry{{RowKey: []byte("r")}}
		case 2:
			ents = []*btpb.MutateRowsRequest_Entry{{Mutations: []*btpb.Mutation{{}}}}
		}
		err, panicked = c20Call(func() error {
			return s.MutateRows(&btpb.MutateRowsRequest{TableName: name, Entries: ents}, &vMutateStream{})
		})
	case 11: // CheckAndMutateRow with nothing set
		err, panicked = c20Call(func() error {
			_, e := s.CheckAndMutateRow(vCtx(), &btpb.CheckAndMutateRowRequest{TableName: name, RowKey: []byte("r")})
			return e
		})
	case 12: // ReadModifyWriteRow: rule without payload, or no rules
		rules := []*btpb.ReadModifyWriteRule{{FamilyName: "f", ColumnQualifier: []byte("q")}}
		if vChoice("rules.empty", 0, 1) == 1 {
			rules = nil
		}
		err, panicked = c20Call(func() error {
			_, e := s.ReadModifyWriteRow(vCtx(), &btpb.ReadModifyWriteRowRequest{TableName: name, RowKey: []byte("r"), Rules: rules})
			return e
		})
	case 13:
		err, panicked = c20Call(func() error {
			return s.SampleRowKeys(&btpb.SampleRowKeysRequest{TableName: name}, &vSampleStream{})
		})
	case 14: // SetCell with extreme timestamp, DeleteFromColumn with extreme range
		err, panicked = c20Call(func() error {
			_, e := s.MutateRow(vCtx(), &btpb.MutateRowRequest{TableName: name, RowKey: []byte("r"), Mutations: []*btpb.Mutation{
				{Mutation: &btpb.Mutation_SetCell_{SetCell: &btpb.Mutation_SetCell{FamilyName: "f", TimestampMicros: n64}}},
				{Mutation: &btpb.Mutation_DeleteFromColumn_{DeleteFromColumn: &btpb.Mutation_DeleteFromColumn{FamilyName: "f", TimeRange: &btpb.TimestampRange{StartTimestampMicros: n64}}}}}})
			return e
		})
	case 15: // a GC rule with an arbitrary (possibly negative) version count, then a forced pass
		err, panicked = c20Call(func() error {
			_, e := s.CreateTable(vCtx(), &btapb.CreateTableRequest{Parent: vParent, TableId: "g", Table: &btapb.Table{
				ColumnFamilies: map[string]*btapb.ColumnFamily{"f": {GcRule: &btapb.GcRule{Rule: &btapb.GcRule_MaxNumVersions{MaxNumVersions: n32}}}}}})
			if e != nil {
				return e
			}
			g := s.tables[vParent+"/tables/g"]
			g.rows.ReplaceOrInsert(&btpb.Row{Key: []byte("r"), Families: []*btpb.Family{{Name: "f", Columns: []*btpb.Column{{Qualifier: []byte("q"),
				Cells: []*btpb.Cell{{TimestampMicros: 2000}, {TimestampMicros: 1000}}}}}}})
			g.gc(5000, s.done, true)
			return nil
		})
		wantNotFound = false
	}
	vAssert(!panicked, "handler-does-not-panic")
	if panicked {
		return
	}
	if wantNotFound {
		vAssert(vCodeOf(err) == codes.NotFound, "missing-table-notfound")
	}
	// afterwards the service still serves its previously stored data (unless the request removed it)
	if op != 3 && op != 5 && op != 14 {
		rows := vReadAll(s)
		vAssert(len(rows) == 1 && len(rows[0].cells) >= 1, "stored-data-intact")
	}
	// ... and its admin surface still answers (a lock leaked on an error path would hang here)
	_, lerr := s.ListTables(vCtx(), &btapb.ListTablesRequest{Parent: vParent})
	vAssert(lerr == nil, "admin-surface-still-answers")
	vReach("c20-bt-inputs")
}

// c20Consume reads a response the way the transport's marshaller would, after the handler returned.
func c20Consume(t *btapb.Table) int {
	n := 0
	if t == nil {
		return 0
	}
	for _, cf := range t.ColumnFamilies {
		if cf != nil && cf.GcRule != nil {
			n++
		}
		n++
	}
	return n
}

// H_C20_bt_pairs: pairs of admin/data requests on one table, all interleavings, race detector on.
func H_C20_bt_pairs() {
	s := c20Seeded()
	ops := []func(){
		func() { // 0 GetTable, response consumed after return
			t, _ := s.GetTable(vCtx(), &btapb.GetTableRequest{Name: vTable})
			c20Consume(t)
		},
		func() { // 1 ModifyColumnFamilies create+drop
			t, _ := s.ModifyColumnFamilies(vCtx(), &btapb.ModifyColumnFamiliesRequest{Name: vTable, Modifications: []*btapb.ModifyColumnFamiliesRequest_Modification{
				{Id: "g", Mod: &btapb.ModifyColumnFamiliesRequest_Modification_Create{Create: &btapb.ColumnFamily{}}}}})
			c20Consume(t)
		},
		func() { // 2 CreateTable of another table + DeleteTable
			t, _ := s.CreateTable(vCtx(), &btapb.CreateTableRequest{Parent: vParent, TableId: "u", Table: &btapb.Table{ColumnFamilies: map[string]*btapb.ColumnFamily{"f": {}}}})
			c20Consume(t)
			s.DeleteTable(vCtx(), &btapb.DeleteTableRequest{Name: vParent + "/tables/u"})
		},
		func() { s.ListTables(vCtx(), &btapb.ListTablesRequest{Parent: vParent}) },                          // 3
		func() { s.GenerateConsistencyToken(vCtx(), &btapb.GenerateConsistencyTokenRequest{Name: vTable}) }, // 4
		func() {
			s.CheckConsistency(vCtx(), &btapb.CheckConsistencyRequest{Name: vTable, ConsistencyToken: "TokenFor-" + vTable})
		}, // 5
		func() { s.ReadRows(&btpb.ReadRowsRequest{TableName: vTable}, &vReadStream{}) }, // 6
		func() { // 7 MutateRow
			s.MutateRow(vCtx(), &btpb.MutateRowRequest{TableName: vTable, RowKey: []byte("r"), Mutations: []*btpb.Mutation{
				{Mutation: &btpb.Mutation_SetCell_{SetCell: &btpb.Mutation_SetCell{FamilyName: "f", ColumnQualifier: []byte("q"), TimestampMicros: 2000, Value: []byte("w")}}}}})
		},
		func() {
			s.DropRowRange(vCtx(), &btapb.DropRowRangeRequest{Name: vTable, Target: &btapb.DropRowRangeRequest_DeleteAllDataFromTable{DeleteAllDataFromTable: true}})
		}, // 8
		func() { s.DeleteTable(vCtx(), &btapb.DeleteTableRequest{Name: vTable}) },                   // 9
		func() { s.SampleRowKeys(&btpb.SampleRowKeysRequest{TableName: vTable}, &vSampleStream{}) }, // 10
		// 11..14: requests on the table that op 2 is creating and deleting at that moment
		func() { s.ReadRows(&btpb.ReadRowsRequest{TableName: vParent + "/tables/u"}, &vReadStream{}) }, // 11
		func() { // 12
			s.MutateRow(vCtx(), &btpb.MutateRowRequest{TableName: vParent + "/tables/u", RowKey: []byte("r"), Mutations: []*btpb.Mutation{
				{Mutation: &btpb.Mutation_SetCell_{SetCell: &btpb.Mutation_SetCell{FamilyName: "f", ColumnQualifier: []byte("q"), TimestampMicros: 2000, Value: []byte("w")}}}}})
		},
		func() { // 13
			t, _ := s.GetTable(vCtx(), &btapb.GetTableRequest{Name: vParent + "/tables/u"})
			c20Consume(t)
		},
		func() { // 14
			s.DropRowRange(vCtx(), &btapb.DropRowRangeRequest{Name: vParent + "/tables/u", Target: &btapb.DropRowRangeRequest_DeleteAllDataFromTable{DeleteAllDataFromTable: true}})
		},
	}
	a := vChoice("op.a", 0, len(ops)-1)
	b := vChoice("op.b", a, len(ops)-1)
	vGo(ops[a])
	vGo(ops[b])
	vJoin()
	vReach("c20-bt-pairs")
}

func init() {
	vHarnesses["H_C20_bt_inputs"] = H_C20_bt_inputs
	vHarnesses["H_C20_bt_pairs"] = H_C20_bt_pairs
}
