package bttest

// C03 — ReadRows returns exactly the requested rows, once, in key order;
// SampleRowKeys returns an ascending subsequence ending with the last key.

import (
	"cloud.google.com/go/bigtable"
	btpb "cloud.google.com/go/bigtable/apiv2/bigtablepb"
	"google.golang.org/grpc/codes"
)

type c03Range struct {
	lo, hi c05Bound // kind 0 unset, 1 open, 2 closed
}

func c03Bound(name string, maxLen int) c05Bound {
	k := vChoice(name+".kind", 0, 2)
	if k == 0 {
		return c05Bound{}
	}
	return c05Bound{kind: k, b: vNondetBytes(name, vChoice(name+".len", 1, maxLen))}
}

// c03Table stores n rows with strictly ascending symbolic keys. Each row has a cell
// f:a@1000 with a symbolic 1-byte value; rows listed in extra also have a newer cell f:a@2000.
func c03Table(s *server, n, maxLen int, extra []bool) (keys [][]byte, vals [][]byte) {
	keys = c01Keys("key", n, maxLen)
	for i := range keys {
		v := vNondetBytes("val", 1)
		vals = append(vals, v)
		cells := []*btpb.Cell{{TimestampMicros: 1000, Value: v}}
		if extra != nil && extra[i] {
			cells = []*btpb.Cell{{TimestampMicros: 2000, Value: []byte("x")}, {TimestampMicros: 1000, Value: v}}
		}
		s.tables[vTable].rows.ReplaceOrInsert(&btpb.Row{Key: keys[i], Families: []*btpb.Family{{Name: "f",
			Columns: []*btpb.Column{{Qualifier: []byte("a"), Cells: cells}}}}})
	}
	return
}

func H_C03_rowset() {
	eng := vChoice("engine", 0, vBound("engines", 0, 1))
	s := vNewServer(eng, func() bigtable.Timestamp { return 0 })
	vCreateTable(s, "f")
	maxLen := vBound("keylen", 2, 2)
	nrows := vBound("rows", 2, 3)
	// filter: 0 none, 1 value >= B (rows below produce no output),
	// 2 cells_per_row_offset(1) (rows with a single cell produce no output)
	fkind := vChoice("filter", 0, 2)
	var extra []bool
	if fkind == 2 {
		for i := 0; i < nrows; i++ {
			extra = append(extra, vChoice("row.twocells", 0, 1) == 1)
		}
	}
	keys, vals := c03Table(s, nrows, maxLen, extra)

	req := &btpb.ReadRowsRequest{TableName: vTable}
	var ranges []c03Range
	var explicit [][]byte
	switch vChoice("rowset.kind", 0, 2) {
	case 0: // absent
	case 1: // present but empty
		req.Rows = &btpb.RowSet{}
	case 2:
		req.Rows = &btpb.RowSet{}
		nr := vChoice("rowset.nranges", 0, vBound("ranges", 1, 2))
		nk := vChoice("rowset.nkeys", 0, 1)
		if nr+nk == 0 {
			return // same as case 1
		}
		for i := 0; i < nr; i++ {
			r := c03Range{lo: c03Bound("range.start", maxLen), hi: c03Bound("range.end", maxLen)}
			rr := &btpb.RowRange{}
			switch r.lo.kind {
			case 1:
				rr.StartKey = &btpb.RowRange_StartKeyOpen{StartKeyOpen: r.lo.b}
			case 2:
				rr.StartKey = &btpb.RowRange_StartKeyClosed{StartKeyClosed: r.lo.b}
			}
			switch r.hi.kind {
			case 1:
				rr.EndKey = &btpb.RowRange_EndKeyOpen{EndKeyOpen: r.hi.b}
			case 2:
				rr.EndKey = &btpb.RowRange_EndKeyClosed{EndKeyClosed: r.hi.b}
			}
			req.Rows.RowRanges = append(req.Rows.RowRanges, rr)
			ranges = append(ranges, r)
		}
		for i := 0; i < nk; i++ {
			k := vNondetBytes("rowkey", vChoice("rowkey.len", vBound("min-rowkey-len", 2, 1), maxLen))
			req.Rows.RowKeys = append(req.Rows.RowKeys, k)
			explicit = append(explicit, k)
		}
	}
	// optional filter that makes some rows produce no output: value >= B
	useFilter := fkind == 1
	var fb []byte
	if fkind == 2 {
		req.Filter = &btpb.RowFilter{Filter: &btpb.RowFilter_CellsPerRowOffsetFilter{CellsPerRowOffsetFilter: 1}}
	}
	if useFilter {
		fb = vNondetBytes("filter.bound", 1)
		req.Filter = &btpb.RowFilter{Filter: &btpb.RowFilter_ValueRangeFilter{ValueRangeFilter: &btpb.ValueRange{
			StartValue: &btpb.ValueRange_StartValueClosed{StartValueClosed: fb}}}}
	}
	limit := vNondetInt64("rows_limit")
	vAssume(limit >= 0)
	req.RowsLimit = limit

	st := &vReadStream{}
	err := s.ReadRows(req, st)

	// ---- reference ----
	invalid := false
	for _, r := range ranges {
		if r.lo.kind != 0 && r.hi.kind != 0 {
			invalid = vOr(invalid, vBytesCmp(r.lo.b, r.hi.b) > 0)
		}
	}
	vAssert((err != nil) == invalid, "error-iff-start-exceeds-end")
	if err != nil {
		vAssert(vCodeOf(err) == codes.InvalidArgument, "invalid-range-code")
		vAssert(len(st.msgs) == 0, "nothing-sent-on-invalid-range")
		vReach("c03-invalid")
		return
	}
	vReach("c03-ok")
	rows, ok := vDecode(st.msgs)
	vAssert(ok, "chunk-stream-wellformed")
	if !ok {
		return
	}
	whole := len(ranges)+len(explicit) == 0
	var total int64
	var outs []bool
	var ranks []int64
	for i := range keys {
		in := whole
		for _, r := range ranges {
			in = vOr(in, c05InRange(keys[i], r.lo, r.hi))
		}
		for _, k := range explicit {
			in = vOr(in, vBytesEq(keys[i], k))
		}
		sel := in
		if useFilter {
			sel = vAnd(in, vBytesCmp(vals[i], fb) >= 0)
		}
		if fkind == 2 {
			sel = vAnd(in, extra[i])
		}
		out := vAnd(sel, vOr(limit == 0, total < limit))
		outs = append(outs, out)
		ranks = append(ranks, total)
		total += vIteInt64(out, 1, 0)
	}
	vAssert(total == int64(len(rows)), "row-count")
	okRows := true
	for i := range keys {
		for j := range rows {
			if len(rows[j].cells) != 1 {
				okRows = false
				continue
			}
			same := vAnd(vBytesEq(rows[j].key, keys[i]), vBytesEq(rows[j].cells[0].val, vals[i]))
			okRows = vAnd(okRows, vImplies(vAnd(outs[i], ranks[i] == int64(j)), same))
		}
	}
	vAssert(okRows, "rows-equal-reference-in-order")
}

// H_C03_sample: SampleRowKeys over a table with symbolic keys and arbitrary draws.
func H_C03_sample() {
	eng := vChoice("engine", 0, vBound("engines", 0, 1))
	s := vNewServer(eng, func() bigtable.Timestamp { return 0 })
	vCreateTable(s, "f")
	keys, _ := c03Table(s, vChoice("nrows", 0, 3), 1, nil)
	st := &vSampleStream{}
	err := s.SampleRowKeys(&btpb.SampleRowKeysRequest{TableName: vTable}, st)
	vAssert(err == nil, "sample-ok")
	if len(keys) == 0 {
		vAssert(len(st.msgs) == 0, "empty-table-no-samples")
		return
	}
	vAssert(len(st.msgs) > 0, "at-least-the-last-key")
	if len(st.msgs) == 0 {
		return
	}
	// each sample is a stored key; strictly ascending; last sample = last key; offsets non-decreasing
	okSeq := true
	for j, m := range st.msgs {
		isKey := false
		for _, k := range keys {
			isKey = vOr(isKey, vBytesEq(m.RowKey, k))
		}
		okSeq = vAnd(okSeq, isKey)
		if j > 0 {
			okSeq = vAnd(okSeq, vBytesCmp(st.msgs[j-1].RowKey, m.RowKey) < 0)
			okSeq = vAnd(okSeq, st.msgs[j-1].OffsetBytes <= m.OffsetBytes)
		}
	}
	vAssert(okSeq, "ascending-subsequence-of-stored-keys")
	vAssert(vBytesEq(st.msgs[len(st.msgs)-1].RowKey, keys[len(keys)-1]), "ends-with-last-key")
	vReach("c03-sample")
}

func init() {
	vHarnesses["H_C03_rowset"] = H_C03_rowset
	vHarnesses["H_C03_sample"] = H_C03_sample
}

// H_C03_merge: the range-normalisation kernel on up to 3 ranges + 1 key: for an arbitrary probe
// key, membership in the requested union equals membership in exactly one normalised range, and
// the normalised ranges are sorted and pairwise disjoint (so no row is visited twice).
func H_C03_merge() {
	maxLen := vBound("merge-keylen", 1, 2)
	nr := vChoice("nranges", 0, 3)
	nk := vChoice("nkeys", 0, 1)
	if nr+nk == 0 {
		return
	}
	var ranges []c03Range
	var rrs []*btpb.RowRange
	for i := 0; i < nr; i++ {
		var r c03Range
		if vBound("merge-all-bound-kinds", 0, 1) == 1 {
			r = c03Range{lo: c03Bound("range.start", maxLen), hi: c03Bound("range.end", maxLen)}
		} else {
			// quick: start closed or unset, end open or unset (the kinds the normaliser maps without appending 0)
			if vChoice("range.start.set", 0, 1) == 1 {
				r.lo = c05Bound{kind: 2, b: vNondetBytes("range.start", 1)}
			}
			if vChoice("range.end.set", 0, 1) == 1 {
				r.hi = c05Bound{kind: 1, b: vNondetBytes("range.end", 1)}
			}
		}
		rr := &btpb.RowRange{}
		switch r.lo.kind {
		case 1:
			rr.StartKey = &btpb.RowRange_StartKeyOpen{StartKeyOpen: r.lo.b}
		case 2:
			rr.StartKey = &btpb.RowRange_StartKeyClosed{StartKeyClosed: r.lo.b}
		}
		switch r.hi.kind {
		case 1:
			rr.EndKey = &btpb.RowRange_EndKeyOpen{EndKeyOpen: r.hi.b}
		case 2:
			rr.EndKey = &btpb.RowRange_EndKeyClosed{EndKeyClosed: r.hi.b}
		}
		// validateRowRanges has already rejected start > end
		if r.lo.kind != 0 && r.hi.kind != 0 {
			vAssume(vBytesCmp(r.lo.b, r.hi.b) <= 0)
		}
		ranges = append(ranges, r)
		rrs = append(rrs, rr)
	}
	var explicit [][]byte
	for i := 0; i < nk; i++ {
		explicit = append(explicit, vNondetBytes("rowkey", vChoice("rowkey.len", 1, maxLen)))
	}
	merged := mergeRowRanges(explicit, rrs)
	probe := vNondetBytes("probe", vChoice("probe.len", 1, maxLen+1))
	want := false
	for _, r := range ranges {
		want = vOr(want, c05InRange(probe, r.lo, r.hi))
	}
	for _, k := range explicit {
		want = vOr(want, vBytesEq(probe, k))
	}
	var hits int64
	for i, sr := range merged {
		in := true
		if len(sr.start) > 0 {
			in = vAnd(in, vBytesCmp(probe, sr.start) >= 0)
		}
		if len(sr.end) > 0 {
			in = vAnd(in, vBytesCmp(probe, sr.end) < 0)
		}
		hits += vIteInt64(in, 1, 0)
		if i > 0 {
			prev := merged[i-1]
			vAssert(len(prev.end) > 0, "normalised: only the last range may be unbounded")
			if len(prev.end) > 0 {
				vAssert(vBytesCmp(prev.end, sr.start) < 0, "normalised-ranges-sorted-and-disjoint")
			}
		}
	}
	vAssert(vIteInt64(want, 1, 0) == hits, "probe-key-in-requested-union-iff-in-exactly-one-normalised-range")
	vReach("c03-merge")
}

// H_C03_large: a result that spans several response messages (the first row alone exceeds the
// 1024-chunk batch): every requested row exactly once, in order, one commit per row, limit honoured.
func H_C03_large() {
	s := vNewServer(vChoice("engine", 0, vBound("engines", 0, 1)), func() bigtable.Timestamp { return 0 })
	vCreateTable(s, "f")
	big := &btpb.Column{Qualifier: []byte("q")}
	for i := 0; i < 1025; i++ {
		big.Cells = append(big.Cells, &btpb.Cell{TimestampMicros: int64(2000000 - 1000*i), Value: []byte("x")})
	}
	tbl := s.tables[vTable]
	tbl.rows.ReplaceOrInsert(&btpb.Row{Key: []byte("a"), Families: []*btpb.Family{{Name: "f", Columns: []*btpb.Column{big}}}})
	keys := c01Keys("key", 2, 1)
	for _, k := range keys {
		vAssume(vBytesCmp([]byte("a"), k) < 0)
		tbl.rows.ReplaceOrInsert(c17Row(k, []byte("v")))
	}
	limit := int64(vChoice("rows_limit", 0, 3))
	st := &vReadStream{}
	err := s.ReadRows(&btpb.ReadRowsRequest{TableName: vTable, RowsLimit: limit}, st)
	vAssert(err == nil, "large:ok")
	vAssert(len(st.msgs) >= 2 || limit == 1, "large:several-messages")
	rows, ok := vDecode(st.msgs)
	vAssert(ok, "large:stream-wellformed")
	want := 3
	if limit > 0 && int(limit) < want {
		want = int(limit)
	}
	vAssert(len(rows) == want, "large:row-count")
	if len(rows) != want {
		return
	}
	vAssert(string(rows[0].key) == "a" && len(rows[0].cells) == 1025, "large:first-row-complete")
	for j := 1; j < want; j++ {
		vAssert(vBytesEq(rows[j].key, keys[j-1]), "large:rows-in-key-order-once")
	}
	vReach("c03-large")
}

// H_C03_limit: rows_limit counts only rows that produce output. Four rows a..d, each with one or
// two cells; cells_per_row_offset(1) leaves the one-cell rows without output; rows_limit is any
// non-negative int64. The result is the first rows_limit two-cell rows, in key order.
func H_C03_limit() {
	eng := vChoice("engine", 0, vBound("engines", 0, 1))
	s := vNewServer(eng, func() bigtable.Timestamp { return 0 })
	vCreateTable(s, "f")
	keys := []string{"a", "b", "c", "d"}
	var two []bool
	for _, k := range keys {
		t := vChoice("row.twocells", 0, 1) == 1
		two = append(two, t)
		cells := []*btpb.Cell{{TimestampMicros: 1000, Value: []byte("v")}}
		if t {
			cells = []*btpb.Cell{{TimestampMicros: 2000, Value: []byte("x")}, {TimestampMicros: 1000, Value: []byte("v")}}
		}
		s.tables[vTable].rows.ReplaceOrInsert(&btpb.Row{Key: []byte(k), Families: []*btpb.Family{{Name: "f",
			Columns: []*btpb.Column{{Qualifier: []byte("q"), Cells: cells}}}}})
	}
	limit := vNondetInt64("rows_limit")
	vAssume(limit >= 0)
	st := &vReadStream{}
	err := s.ReadRows(&btpb.ReadRowsRequest{TableName: vTable, RowsLimit: limit,
		Filter: &btpb.RowFilter{Filter: &btpb.RowFilter_CellsPerRowOffsetFilter{CellsPerRowOffsetFilter: 1}}}, st)
	vAssert(err == nil, "limit:ok")
	rows, ok := vDecode(st.msgs)
	vAssert(ok, "limit:stream-wellformed")
	var want []string
	for i, k := range keys {
		if two[i] {
			want = append(want, k)
		}
	}
	n := int64(len(want))
	expect := vIteInt64(vAnd(limit > 0, limit < n), limit, n)
	vAssert(int64(len(rows)) == expect, "limit:first-N-rows-that-produce-output")
	for j := range rows {
		if j < len(want) {
			vAssert(string(rows[j].key) == want[j] && len(rows[j].cells) == 1, "limit:rows-in-order-with-their-cells")
		}
	}
	vReach("c03-limit")
}

func init() {
	vHarnesses["H_C03_limit"] = H_C03_limit
	vHarnesses["H_C03_merge"] = H_C03_merge
	vHarnesses["H_C03_large"] = H_C03_large
}
