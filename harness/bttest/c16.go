package bttest

// C16 — garbage collection removes exactly what the GC rules condemn.

import (
	"time"

	"cloud.google.com/go/bigtable"
	btapb "cloud.google.com/go/bigtable/admin/apiv2/adminpb"
	btpb "cloud.google.com/go/bigtable/apiv2/bigtablepb"
	"google.golang.org/protobuf/types/known/durationpb"
)

// c16Rule is a GC rule with its reference semantics: condemned(position, ts).
type c16Rule struct {
	pb        *btapb.GcRule
	condemned func(pos int, ts int64) bool
	supported bool
}

func c16Leaf(name string, now int64) c16Rule { return c16LeafOf(name, now, true) }

func c16LeafOf(name string, now int64, allowAge bool) c16Rule {
	kindMax := 1
	if !allowAge {
		kindMax = 0
	}
	if vChoice(name+".kind", 0, kindMax) == 0 {
		n := vNondetInt32(name + ".maxversions")
		vAssume(n >= 0) // negative counts are not a valid rule (see C20 for robustness)
		return c16Rule{pb: &btapb.GcRule{Rule: &btapb.GcRule_MaxNumVersions{MaxNumVersions: n}}, supported: true,
			condemned: func(pos int, ts int64) bool { return int64(pos) >= int64(n) }}
	}
	sec := vNondetInt64(name + ".age.seconds")
	nanos := vNondetInt32(name + ".age.nanos")
	// the Duration domain (protobuf well-known type)
	vAssume(vAnd(sec >= 0, sec <= 315576000000))
	vAssume(vAnd(nanos >= 0, nanos <= 999999999))
	// cells older than now - max_age (microseconds; sub-microsecond part of the age truncated)
	cutoff := now - sec*1000000 - int64(nanos)/1000
	return c16Rule{pb: &btapb.GcRule{Rule: &btapb.GcRule_MaxAge{MaxAge: &durationpb.Duration{Seconds: sec, Nanos: nanos}}}, supported: true,
		condemned: func(pos int, ts int64) bool { return ts < cutoff }}
}

func c16RuleTree(now int64) c16Rule {
	switch vChoice("rule.shape", 0, 2) {
	case 0:
		return c16Leaf("rule", now)
	case 1:
		// quick: the second member of a union is a max-versions rule (max-age arithmetic is the costly part)
		a, b := c16Leaf("rule.a", now), c16LeafOf("rule.b", now, vBound("union-second-age", 0, 1) == 1)
		return c16Rule{pb: &btapb.GcRule{Rule: &btapb.GcRule_Union_{Union: &btapb.GcRule_Union{Rules: []*btapb.GcRule{a.pb, b.pb}}}}, supported: true,
			condemned: func(pos int, ts int64) bool { return vOr(a.condemned(pos, ts), b.condemned(pos, ts)) }}
	}
	a := c16Leaf("rule.a", now)
	return c16Rule{pb: &btapb.GcRule{Rule: &btapb.GcRule_Intersection_{Intersection: &btapb.GcRule_Intersection{Rules: []*btapb.GcRule{a.pb, a.pb}}}},
		condemned: func(pos int, ts int64) bool { return false }}
}

// c16Seed stores rows directly: row 0: f:q0 0..3 versions, g:q0 0..1; row 1: f:q0 0..1.
func c16Seed(tbl *table, m *mState) {
	for r := range m.keys {
		row := &btpb.Row{Key: m.keys[r]}
		for f, fname := range m.fams {
			max := 0
			switch {
			case r == 0 && f == 0:
				max = vBound("versions", 2, 3)
			case r == 0 && f == 1:
				max = 1
			case r == 1 && f == 0:
				max = 1
			}
			if max == 0 {
				continue
			}
			n := vChoice("pre.n", 0, max)
			if n == 0 {
				continue
			}
			col := &btpb.Column{Qualifier: m.quals[0]}
			for i := 0; i < n; i++ {
				ts := vNondetInt64("pre.ts")
				vAssume(vValidTS(ts))
				if i > 0 {
					vAssume(ts < col.Cells[i-1].TimestampMicros)
				}
				val := vNondetBytes("pre.val", 1)
				col.Cells = append(col.Cells, &btpb.Cell{TimestampMicros: ts, Value: val})
				m.cols[r][f][0] = append(m.cols[r][f][0], mCell{ts: ts, val: val, alive: true})
			}
			cols := []*btpb.Column{col}
			if r == 0 && f == 0 {
				// a second column of the ruled family in the same row: 0..2 versions
				n2 := vChoice("pre.n2", 0, 2)
				if n2 > 0 {
					col2 := &btpb.Column{Qualifier: m.quals[1]}
					for i := 0; i < n2; i++ {
						ts := vNondetInt64("pre.ts")
						vAssume(vValidTS(ts))
						if i > 0 {
							vAssume(ts < col2.Cells[i-1].TimestampMicros)
						}
						val := vNondetBytes("pre.val", 1)
						col2.Cells = append(col2.Cells, &btpb.Cell{TimestampMicros: ts, Value: val})
						m.cols[r][f][1] = append(m.cols[r][f][1], mCell{ts: ts, val: val, alive: true})
					}
					cols = append(cols, col2)
				}
			}
			row.Families = append(row.Families, &btpb.Family{Name: fname, Columns: cols})
		}
		if len(row.Families) > 0 {
			tbl.rows.ReplaceOrInsert(row)
		}
	}
}

func H_C16_pass() {
	eng := vChoice("engine", 0, vBound("engines", 0, 1))
	now := vNondetInt64("now")
	vAssume(now >= 0)
	s := vNewServer(eng, func() bigtable.Timestamp { return bigtable.Timestamp(now) })
	rule := c16RuleTree(now)
	// family f carries the rule under test; family g has no rule or an unsupported one
	gfam := &btapb.ColumnFamily{}
	if vChoice("g.rule", 0, 1) == 1 {
		gfam.GcRule = &btapb.GcRule{Rule: &btapb.GcRule_Intersection_{Intersection: &btapb.GcRule_Intersection{}}}
	}
	mk := func(id string) {
		_, err := s.CreateTable(vCtx(), &btapb.CreateTableRequest{Parent: vParent, TableId: id, Table: &btapb.Table{
			ColumnFamilies: map[string]*btapb.ColumnFamily{"f": {GcRule: rule.pb}, "g": gfam}}})
		if err != nil {
			vFatal("CreateTable")
		}
	}
	mk("t")
	mk("other")
	keys := c01Keys("key", 2, 1)
	quals := [][]byte{[]byte("q"), []byte("r")}
	m := newMState(keys, quals)
	c16Seed(s.tables[vTable], m)
	// the other table holds one row that the rule would condemn entirely if it were applied there
	other := s.tables[vParent+"/tables/other"]
	other.rows.ReplaceOrInsert(&btpb.Row{Key: []byte("o"), Families: []*btpb.Family{{Name: "f", Columns: []*btpb.Column{{Qualifier: []byte("q"),
		Cells: []*btpb.Cell{{TimestampMicros: 2000, Value: []byte("x")}, {TimestampMicros: 1000, Value: []byte("y")}}}}}}})

	c01Compare(m, vReadAll(s), "before")
	s.tables[vTable].gc(bigtable.Timestamp(now), s.done, true)

	// reference: per column of family f, a cell is kept iff the rule does not condemn it
	want := m.clone()
	if rule.supported {
		for r := range want.cols {
			for q := range want.cols[r][0] {
				cs := want.cols[r][0][q]
				for i := range cs {
					cs[i].alive = vNot(rule.condemned(i, cs[i].ts))
				}
			}
		}
		vReach("c16-supported")
	} else {
		vReach("c16-unsupported")
	}
	c01Compare(want, vReadAll(s), "after")

	// the other table is untouched
	st := &vReadStream{}
	err := s.ReadRows(&btpb.ReadRowsRequest{TableName: vParent + "/tables/other"}, st)
	rows, ok := vDecode(st.msgs)
	vAssert(err == nil && ok && len(rows) == 1 && len(rows[0].cells) == 2, "other-table-untouched")
}

// H_C16_quiesce: an unforced pass runs only on a table idle for five minutes.
func H_C16_quiesce() {
	s := vNewServer(vEngLeveldbMem, func() bigtable.Timestamp { return 5000 })
	_, err := s.CreateTable(vCtx(), &btapb.CreateTableRequest{Parent: vParent, TableId: "t", Table: &btapb.Table{
		ColumnFamilies: map[string]*btapb.ColumnFamily{"f": {GcRule: &btapb.GcRule{Rule: &btapb.GcRule_MaxNumVersions{MaxNumVersions: 1}}}}}})
	if err != nil {
		vFatal("CreateTable")
	}
	tbl := s.tables[vTable]
	tbl.rows.ReplaceOrInsert(&btpb.Row{Key: []byte("r"), Families: []*btpb.Family{{Name: "f", Columns: []*btpb.Column{{Qualifier: []byte("q"),
		Cells: []*btpb.Cell{{TimestampMicros: 2000, Value: []byte("x")}, {TimestampMicros: 1000, Value: []byte("y")}}}}}}})
	lr, lw, realNow := vNondetInt64("lastRead"), vNondetInt64("lastWrite"), vNondetInt64("realNow")
	vAssume(vAnd(lr >= 0, vAnd(lw >= 0, realNow >= 0)))
	vAssume(vAnd(lr <= realNow, lw <= realNow))
	tbl.lastReadNanos, tbl.lastWriteNanos = lr, lw
	vSetClock(realNow)
	tbl.gc(5000, s.done, false)
	collected := len(tbl.rows.Get([]byte("r")).Families[0].Columns[0].Cells) == 1
	idle := int64(5 * time.Minute)
	quiet := vAnd(lw != 0, vAnd(realNow-lw >= idle, realNow-lr >= idle))
	vAssert(vImplies(collected, quiet), "pass-runs-only-on-a-table-idle-for-five-minutes")
	if collected {
		vReach("c16-ran")
	} else {
		vReach("c16-skipped")
	}
}

func init() {
	vHarnesses["H_C16_pass"] = H_C16_pass
	vHarnesses["H_C16_quiesce"] = H_C16_quiesce
}

// H_C16_writers: a write acknowledged while a pass is running is never lost or reverted.
// 100 filler rows make the pass release the table lock once before it reaches row "s".
func H_C16_writers() {
	s := vNewServer(vEngLeveldbMem, func() bigtable.Timestamp { return 5000 })
	_, err := s.CreateTable(vCtx(), &btapb.CreateTableRequest{Parent: vParent, TableId: "t", Table: &btapb.Table{
		ColumnFamilies: map[string]*btapb.ColumnFamily{"f": {GcRule: &btapb.GcRule{Rule: &btapb.GcRule_MaxNumVersions{MaxNumVersions: 1}}}}}})
	if err != nil {
		vFatal("CreateTable")
	}
	tbl := s.tables[vTable]
	two := func(key string) *btpb.Row {
		return &btpb.Row{Key: []byte(key), Families: []*btpb.Family{{Name: "f", Columns: []*btpb.Column{{Qualifier: []byte("q"),
			Cells: []*btpb.Cell{{TimestampMicros: 2000, Value: []byte("new")}, {TimestampMicros: 1000, Value: []byte("old")}}}}}}}
	}
	for i := 0; i < 100; i++ {
		tbl.rows.ReplaceOrInsert(two(string([]byte{'a', byte('0' + i/10), byte('0' + i%10)})))
	}
	tbl.rows.ReplaceOrInsert(two("s"))
	target := []string{"s", "t", "a50", "a99"}[vChoice("writer.target", 0, 3)] // a99 is the 100th row: the one at which the pass gives up the lock
	val := vNondetBytes("writer.val", 1)
	deleteRow := vChoice("writer.kind", 0, 1) == 1
	acked := false
	vGo(func() {
		mut := &btpb.Mutation{Mutation: &btpb.Mutation_SetCell_{SetCell: &btpb.Mutation_SetCell{FamilyName: "f", ColumnQualifier: []byte("w"), TimestampMicros: 3000, Value: val}}}
		if deleteRow {
			mut = &btpb.Mutation{Mutation: &btpb.Mutation_DeleteFromRow_{DeleteFromRow: &btpb.Mutation_DeleteFromRow{}}}
		}
		_, err := s.MutateRow(vCtx(), &btpb.MutateRowRequest{TableName: vTable, RowKey: []byte(target), Mutations: []*btpb.Mutation{mut}})
		acked = err == nil
	})
	vGo(func() { tbl.gc(5000, s.done, true) })
	vJoin()
	vAssert(acked, "write-acknowledged")
	// the acknowledged cell f:w@3000 must be there (max-versions 1 keeps the newest cell of its column)
	st := &vReadStream{}
	rerr := s.ReadRows(&btpb.ReadRowsRequest{TableName: vTable, Rows: &btpb.RowSet{RowKeys: [][]byte{[]byte(target)}}}, st)
	rows, ok := vDecode(st.msgs)
	vAssert(rerr == nil && ok, "read-ok")
	if deleteRow {
		vAssert(len(rows) == 0, "acknowledged-row-delete-is-not-reverted-by-the-pass")
		vReach("c16-writers")
		return
	}
	found := false
	if len(rows) == 1 {
		for _, c := range rows[0].cells {
			if string(c.qual) == "w" && c.ts == 3000 {
				found = vBytesEq(c.val, val)
			}
		}
	}
	vAssert(found, "acknowledged-write-survives-the-pass")
	vReach("c16-writers")
}

func init() {
	vHarnesses["H_C16_writers"] = H_C16_writers
}
