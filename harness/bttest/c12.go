package bttest

// C12 — CheckAndMutateRow applies exactly the branch its predicate selects.

import (
	"cloud.google.com/go/bigtable"
	btpb "cloud.google.com/go/bigtable/apiv2/bigtablepb"
)

// c12Seed stores one row (f:q0 0..2 versions, f:q1 0..1) and returns both views of it:
// the mutation model and the cell list in row order for the filter evaluator.
func c12Seed(s *server, m *mState) []fCell {
	var cells []fCell
	row := &btpb.Row{Key: m.keys[0]}
	fam := &btpb.Family{Name: "f"}
	col := 0
	for q := range m.quals {
		max := 1
		if q == 0 {
			max = 2
		} else if vBound("second-column", 0, 1) == 0 {
			max = 0
		}
		n := 0
		if max > 0 {
			n = vChoice("pre.n", 0, max)
		}
		if n == 0 {
			continue
		}
		c := &btpb.Column{Qualifier: m.quals[q]}
		for i := 0; i < n; i++ {
			ts := vNondetInt64("pre.ts")
			vAssume(vValidTS(ts))
			if i > 0 {
				vAssume(ts < c.Cells[i-1].TimestampMicros)
			}
			val := vNondetBytes("pre.val", 1)
			c.Cells = append(c.Cells, &btpb.Cell{TimestampMicros: ts, Value: val})
			m.cols[0][0][q] = append(m.cols[0][0][q], mCell{ts: ts, val: val, alive: true})
			cells = append(cells, fCell{fam: "f", col: col, qual: m.quals[q], ts: ts, val: val, alive: true, src: len(cells)})
		}
		fam.Columns = append(fam.Columns, c)
		col++
	}
	if len(fam.Columns) > 0 {
		row.Families = []*btpb.Family{fam}
		s.tables[vTable].rows.ReplaceOrInsert(row)
	}
	return cells
}

// c12Merge: err ? pre : (matched ? t : f), where t and f both extend pre.
func c12Merge(err, matched bool, pre, t, f *mState) *mState {
	out := pre.clone()
	for r := range out.cols {
		for fi := range out.cols[r] {
			for q := range out.cols[r][fi] {
				old := pre.cols[r][fi][q]
				tc, fc := t.cols[r][fi][q], f.cols[r][fi][q]
				cs := out.cols[r][fi][q]
				for i := range cs {
					cs[i].alive = vIteBool(err, old[i].alive, vIteBool(matched, tc[i].alive, fc[i].alive))
				}
				for i := len(old); i < len(tc); i++ {
					c := tc[i]
					c.alive = vAnd(vNot(err), vAnd(matched, c.alive))
					cs = append(cs, c)
				}
				for i := len(old); i < len(fc); i++ {
					c := fc[i]
					c.alive = vAnd(vNot(err), vAnd(vNot(matched), c.alive))
					cs = append(cs, c)
				}
				out.cols[r][fi][q] = cs
			}
		}
	}
	return out
}

func H_C12_cam() {
	eng := vChoice("engine", 0, vBound("engines", 0, 1))
	now := vNondetInt64("now")
	vAssume(now >= 0)
	nowMs := now - now%1000
	s := vNewServer(eng, func() bigtable.Timestamp { return bigtable.Timestamp(now) })
	vCreateTable(s, "f", "g")
	keys := [][]byte{[]byte("r")}
	quals := c01Keys("qual", 2, 1)
	m := newMState(keys, quals)
	cells := c12Seed(s, m)

	// predicate
	var pred fFilter
	havePred := vChoice("pred.kind", 0, vBound("pred-kinds", 1, 2))
	if havePred == 1 {
		switch vChoice("pred.condition", 0, 2) {
		case 1:
			havePred = 3
		case 2:
			havePred = 4
		}
	}
	switch havePred {
	case 4: // a column range with symbolic open / closed / unset bounds (value ranges: thorough tier)
		pred = c05Leaf([]int{4, 3}[vChoice("pred.range.leaf", 0, vBound("pred-range-leaves", 0, 1))])
	case 3: // condition(leaf ? pass_all-or-absent : pass_all-or-absent)
		pl := c05Leaf([]int{0, 7}[vChoice("pred.cond.leaf", 0, 1)]) // pass_all(flag) or cells_per_row_offset(n)
		haveT, haveE := vChoice("pred.true", 0, 1) == 1, vChoice("pred.false", 0, 1) == 1
		pred = c05Condition(pl, c05Leaf(8), haveT, c05Leaf(8), haveE)
		pred.rowLvl = pl.rowLvl
	case 1:
		pred = c05BasisLeaf("pred")
	case 2:
		a, b := c05BasisLeaf("pred.a"), c05BasisLeaf("pred.b")
		if a.sample || b.sample {
			return
		}
		pred = fFilter{pb: &btpb.RowFilter{Filter: &btpb.RowFilter_Chain_{Chain: &btpb.RowFilter_Chain{Filters: []*btpb.RowFilter{a.pb, b.pb}}}}, rowLvl: a.rowLvl}
		pred.ev = func(in []fCell) ([]fCell, bool) {
			mid, inv1 := a.ev(in)
			out, inv2 := b.ev(mid)
			return out, vOr(inv1, vAnd(fAny(mid), inv2))
		}
		mid, inv1 := a.ev(cells)
		_, inv2 := b.ev(mid)
		vAssume(vOr(inv1, vOr(fAny(mid), vNot(inv2))))
	}
	if pred.sample {
		return
	}
	matched := fAny(cells)
	pinv := false
	if havePred > 0 {
		var po []fCell
		po, pinv = pred.ev(cells)
		matched = fAny(po)
		if len(cells) == 0 && !pred.rowLvl {
			// a per-cell predicate has nothing to be evaluated on: lazy validation is not asserted.
			// Row-level predicates (flags, limits, offsets) are validated even on a row without cells.
			vAssume(vNot(pinv))
		}
	}

	// mutation lists: 0..1 mutation each (thorough: the true list up to 2)
	nfam := vBound("family-choices", 1, 2)
	build := func(name string, max int) ([]*btpb.Mutation, *mState, bool) {
		post := m.clone()
		inv := false
		var muts []*btpb.Mutation
		n := vChoice(name+".n", 0, max)
		for i := 0; i < n; i++ {
			mm := c01MutationOf(quals, nowMs, nfam, vBound("mutation-kind-set", 1, 0))
			muts = append(muts, mm.pb)
			inv = vOr(inv, mm.invalid)
			mm.apply(post, 0)
		}
		return muts, post, inv
	}
	tm, tpost, tinv := build("true", vBound("true-muts", 1, 2))
	fm, fpost, finv := build("false", 1)

	req := &btpb.CheckAndMutateRowRequest{TableName: vTable, RowKey: keys[0], TrueMutations: tm, FalseMutations: fm}
	if havePred > 0 {
		req.PredicateFilter = pred.pb
	}
	resp, err := s.CheckAndMutateRow(vCtx(), req)

	wantErr := vOr(pinv, vIteBool(matched, tinv, finv))
	vAssert((err != nil) == wantErr, "error-iff-invalid-predicate-or-selected-mutation")
	if err == nil {
		vReach("c12-ok")
		vAssert(resp != nil, "response-present")
		if resp != nil {
			vAssert(resp.PredicateMatched == matched, "predicate-matched-iff-predicate-yields-a-cell")
		}
	} else {
		vReach("c12-err")
		vAssert(resp == nil, "no-response-on-error")
	}
	final := c12Merge(wantErr, matched, m, tpost, fpost)
	c01Compare(final, vReadAll(s), "after")
}

// H_C12_atomic: the selected branch holds two mutations; if either is invalid nothing is stored.
func H_C12_atomic() {
	now := vNondetInt64("now")
	vAssume(now >= 0)
	nowMs := now - now%1000
	s := vNewServer(vEngLeveldbMem, func() bigtable.Timestamp { return bigtable.Timestamp(now) })
	vCreateTable(s, "f", "g")
	keys := [][]byte{[]byte("r")}
	quals := c01Keys("qual", 2, 1)
	m := newMState(keys, quals)
	cells := c12Seed(s, m)
	post := m.clone()
	inv := false
	var muts []*btpb.Mutation
	for i := 0; i < 2; i++ {
		mm := c01MutationOf(quals, nowMs, 1, 1)
		muts = append(muts, mm.pb)
		inv = vOr(inv, mm.invalid)
		mm.apply(post, 0)
	}
	req := &btpb.CheckAndMutateRowRequest{TableName: vTable, RowKey: keys[0]}
	matched := len(cells) > 0 // no predicate: the row has any cell
	if matched {
		req.TrueMutations = muts
	} else {
		req.FalseMutations = muts
	}
	resp, err := s.CheckAndMutateRow(vCtx(), req)
	vAssert((err != nil) == inv, "atomic:error-iff-some-selected-mutation-invalid")
	if err == nil && resp != nil {
		vAssert(resp.PredicateMatched == matched, "atomic:predicate-matched")
	}
	c01Compare(mSelect(inv, m, post), vReadAll(s), "atomic")
	vReach("c12-atomic")
}

func init() {
	vHarnesses["H_C12_cam"] = H_C12_cam
	vHarnesses["H_C12_atomic"] = H_C12_atomic
}
