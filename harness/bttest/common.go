package bttest

// Common harness support for bigtable/bttest: environment stubs (listed in
// vStubs, executed symbolically in place of the named callees), server
// construction, stream recorders and the chunk-stream decoder.

import (
	"bytes"
	"context"
	"errors"
	"sync"

	"cloud.google.com/go/bigtable"
	btapb "cloud.google.com/go/bigtable/admin/apiv2/adminpb"
	btpb "cloud.google.com/go/bigtable/apiv2/bigtablepb"
	"github.com/syndtr/goleveldb/leveldb"
	"github.com/syndtr/goleveldb/leveldb/iterator"
	"github.com/syndtr/goleveldb/leveldb/opt"
	"github.com/syndtr/goleveldb/leveldb/storage"
	"github.com/syndtr/goleveldb/leveldb/util"
	"google.golang.org/grpc/codes"
	"google.golang.org/grpc/metadata"
	"google.golang.org/grpc/status"
)

// vStubs maps callee names to the harness functions run in their place by the
// symbolic executor. Natively nothing here is used.
func vStubs() map[string]interface{} {
	m := vBaseStubs()
	for k, v := range c08Stubs() {
		m[k] = v
	}
	return m
}

func vBaseStubs() map[string]interface{} {
	return map[string]interface{}{
		"google.golang.org/grpc/status.Errorf":                      stubStatusErrorf,
		"google.golang.org/grpc/status.Error":                       stubStatusError,
		"google.golang.org/grpc/status.Code":                        stubStatusCode,
		"fmt.Errorf":                                                stubFmtErrorf,
		"github.com/syndtr/goleveldb/leveldb.Open":                  stubLdbOpen,
		"github.com/syndtr/goleveldb/leveldb.OpenFile":              stubLdbOpenFile,
		"github.com/syndtr/goleveldb/leveldb/storage.NewMemStorage": stubNewMemStorage,
		"(*github.com/syndtr/goleveldb/leveldb.DB).Get":             stubLdbGet,
		"(*github.com/syndtr/goleveldb/leveldb.DB).Put":             stubLdbPut,
		"(*github.com/syndtr/goleveldb/leveldb.DB).Delete":          stubLdbDelete,
		"(*github.com/syndtr/goleveldb/leveldb.DB).Close":           stubLdbClose,
		"(*github.com/syndtr/goleveldb/leveldb.DB).NewIterator":     stubLdbNewIterator,
		"math/rand.Float64":                                         stubRandFloat64,
		"math/rand.Int31n":                                          stubRandInt31n,
		"math/rand.Intn":                                            stubRandIntn,
	}
}

// ---- errors ----

type vStatusErr struct{ code codes.Code }

func (e *vStatusErr) Error() string { return "status error" }

type vPlainErr struct{ wrapped error }

func (e *vPlainErr) Error() string { return "error" }
func (e *vPlainErr) Unwrap() error { return e.wrapped }

func stubStatusErrorf(c codes.Code, format string, a ...interface{}) error {
	return &vStatusErr{code: c}
}
func stubStatusError(c codes.Code, msg string) error { return &vStatusErr{code: c} }
func stubStatusCode(err error) codes.Code {
	if err == nil {
		return codes.OK
	}
	if e, ok := err.(*vStatusErr); ok {
		return e.code
	}
	return codes.Unknown
}
func stubFmtErrorf(format string, a ...interface{}) error {
	var w error
	for _, x := range a {
		if e, ok := x.(error); ok {
			w = e
		}
	}
	return &vPlainErr{wrapped: w}
}

// vCodeOf is the gRPC code of an error as the transport would report it.
func vCodeOf(err error) codes.Code {
	if err == nil {
		return codes.OK
	}
	if e, ok := err.(*vStatusErr); ok {
		return e.code
	}
	return status.Code(err)
}

// ---- randomness: arbitrary values within the documented range ----

func stubRandFloat64() float64 {
	// the draw is compared against a probability in (0,1): two outcomes matter
	if vNondetBool("rand.Float64<p") {
		return 0.0
	}
	return 0.9999999
}
func stubRandInt31n(n int32) int32 {
	v := vNondetInt32("rand.Int31n")
	vAssume(vAnd(v >= 0, v < n))
	return v
}
func stubRandIntn(n int) int {
	v := vNondetInt("rand.Intn")
	vAssume(vAnd(v >= 0, v < n))
	return v
}

// ---- goleveldb: a sorted key/value list per DB handle; iterators see a snapshot ----

type vKV struct {
	key []byte
	val []byte
}

type vFakeDB struct {
	mu     sync.Mutex // goleveldb operations are atomic and safe for concurrent use
	kvs    []*vKV
	closed bool
	path   string
}

var vDBs map[*leveldb.DB]*vFakeDB
var vDisk map[string]*vFakeDB // OpenFile: path -> contents
var vDBsMu sync.Mutex         // the handle table is harness state, not part of goleveldb

func vDBOf(db *leveldb.DB) *vFakeDB {
	vDBsMu.Lock()
	f := vDBs[db]
	vDBsMu.Unlock()
	if f == nil {
		vFatal("unknown leveldb handle")
	}
	return f
}

func stubNewMemStorage() storage.Storage { return nil }

func stubLdbOpen(stor storage.Storage, o *opt.Options) (*leveldb.DB, error) {
	db := new(leveldb.DB)
	vDBsMu.Lock()
	defer vDBsMu.Unlock()
	if vDBs == nil {
		vDBs = map[*leveldb.DB]*vFakeDB{}
	}
	vDBs[db] = &vFakeDB{}
	return db, nil
}

func stubLdbOpenFile(path string, o *opt.Options) (*leveldb.DB, error) {
	db := new(leveldb.DB)
	vDBsMu.Lock()
	defer vDBsMu.Unlock()
	if vDBs == nil {
		vDBs = map[*leveldb.DB]*vFakeDB{}
	}
	if vDisk == nil {
		vDisk = map[string]*vFakeDB{}
	}
	f := vDisk[path]
	if f == nil {
		vEffect() // creating the database directory is a durable effect of its own
		f = &vFakeDB{path: path}
		vDisk[path] = f
	}
	f.closed = false
	vDBs[db] = f
	return db, nil
}

// vLdbFind returns the index of the first entry with key >= k.
func vLdbFind(f *vFakeDB, k []byte) int {
	for i, kv := range f.kvs {
		if bytes.Compare(kv.key, k) >= 0 {
			return i
		}
	}
	return len(f.kvs)
}

func stubLdbGet(db *leveldb.DB, key []byte, ro *opt.ReadOptions) ([]byte, error) {
	f := vDBOf(db)
	f.mu.Lock()
	defer f.mu.Unlock()
	if f.closed {
		return nil, leveldb.ErrClosed
	}
	i := vLdbFind(f, key)
	if i < len(f.kvs) && bytes.Equal(f.kvs[i].key, key) {
		return f.kvs[i].val, nil
	}
	return nil, leveldb.ErrNotFound
}

func stubLdbPut(db *leveldb.DB, key, value []byte, wo *opt.WriteOptions) error {
	f := vDBOf(db)
	f.mu.Lock()
	defer f.mu.Unlock()
	if f.closed {
		return leveldb.ErrClosed
	}
	if f.path != "" {
		vEffect() // a write to an on-disk database is one atomic durable effect
	}
	i := vLdbFind(f, key)
	kv := &vKV{key: append([]byte{}, key...), val: value}
	if i < len(f.kvs) && bytes.Equal(f.kvs[i].key, key) {
		n := append([]*vKV{}, f.kvs...)
		n[i] = kv
		f.kvs = n
		return nil
	}
	n := make([]*vKV, 0, len(f.kvs)+1)
	n = append(n, f.kvs[:i]...)
	n = append(n, kv)
	n = append(n, f.kvs[i:]...)
	f.kvs = n
	return nil
}

func stubLdbDelete(db *leveldb.DB, key []byte, wo *opt.WriteOptions) error {
	f := vDBOf(db)
	f.mu.Lock()
	defer f.mu.Unlock()
	if f.closed {
		return leveldb.ErrClosed
	}
	if f.path != "" {
		vEffect()
	}
	i := vLdbFind(f, key)
	if i < len(f.kvs) && bytes.Equal(f.kvs[i].key, key) {
		n := make([]*vKV, 0, len(f.kvs))
		n = append(n, f.kvs[:i]...)
		n = append(n, f.kvs[i+1:]...)
		f.kvs = n
	}
	return nil
}

func stubLdbClose(db *leveldb.DB) error {
	f := vDBOf(db)
	f.mu.Lock()
	defer f.mu.Unlock()
	if f.closed {
		return leveldb.ErrClosed
	}
	f.closed = true
	return nil
}

type vIter struct {
	kvs []*vKV // snapshot restricted to the range
	pos int
}

func stubLdbNewIterator(db *leveldb.DB, slice *util.Range, ro *opt.ReadOptions) iterator.Iterator {
	f := vDBOf(db)
	f.mu.Lock()
	defer f.mu.Unlock()
	it := &vIter{pos: -1}
	if f.closed {
		return it
	}
	for _, kv := range f.kvs { // f.kvs is never mutated in place: this is a snapshot
		if slice != nil {
			if slice.Start != nil && bytes.Compare(kv.key, slice.Start) < 0 {
				continue
			}
			if slice.Limit != nil && bytes.Compare(kv.key, slice.Limit) >= 0 {
				continue
			}
		}
		it.kvs = append(it.kvs, kv)
	}
	return it
}

func (it *vIter) First() bool { it.pos = 0; return it.pos < len(it.kvs) }
func (it *vIter) Last() bool  { it.pos = len(it.kvs) - 1; return it.pos >= 0 }
func (it *vIter) Seek(key []byte) bool {
	for i, kv := range it.kvs {
		if bytes.Compare(kv.key, key) >= 0 {
			it.pos = i
			return true
		}
	}
	it.pos = len(it.kvs)
	return false
}
func (it *vIter) Next() bool {
	if it.pos < len(it.kvs) {
		it.pos++
	}
	return it.pos < len(it.kvs)
}
func (it *vIter) Prev() bool {
	if it.pos >= 0 {
		it.pos--
	}
	return it.pos >= 0
}
func (it *vIter) Valid() bool  { return it.pos >= 0 && it.pos < len(it.kvs) }
func (it *vIter) Error() error { return nil }
func (it *vIter) Key() []byte {
	if !it.Valid() {
		return nil
	}
	return it.kvs[it.pos].key
}
func (it *vIter) Value() []byte {
	if !it.Valid() {
		return nil
	}
	return it.kvs[it.pos].val
}
func (it *vIter) Release()                           {}
func (it *vIter) SetReleaser(releaser util.Releaser) {}

// ---- server construction ----

const vParent = "projects/p/instances/i"
const vTable = vParent + "/tables/t"

// engine kinds
const (
	vEngLeveldbMem = 0
	vEngBtree      = 1
)

func vStorage(kind int) Storage {
	if kind == vEngBtree {
		return BtreeStorage{}
	}
	return LeveldbMemStorage{}
}

func vNewServer(kind int, clock func() bigtable.Timestamp) *server {
	return &server{
		tables:  make(map[string]*table),
		storage: vStorage(kind),
		clock:   clock,
		done:    make(chan struct{}),
	}
}

func vCtx() context.Context { return context.Background() }

// vCreateTable creates table "t" with the given families (no GC rules).
func vCreateTable(s *server, fams ...string) {
	cfs := map[string]*btapb.ColumnFamily{}
	for _, f := range fams {
		cfs[f] = &btapb.ColumnFamily{}
	}
	_, err := s.CreateTable(vCtx(), &btapb.CreateTableRequest{Parent: vParent, TableId: "t", Table: &btapb.Table{ColumnFamilies: cfs}})
	if err != nil {
		vFatal("CreateTable failed")
	}
}

// ---- stream recorders ----

type vStreamBase struct{}

func (vStreamBase) SetHeader(metadata.MD) error  { return nil }
func (vStreamBase) SendHeader(metadata.MD) error { return nil }
func (vStreamBase) SetTrailer(metadata.MD)       {}
func (vStreamBase) Context() context.Context     { return context.Background() }
func (vStreamBase) SendMsg(m interface{}) error  { return nil }
func (vStreamBase) RecvMsg(m interface{}) error  { return nil }

type vReadStream struct {
	vStreamBase
	msgs   []*btpb.ReadRowsResponse
	onSend func()
}

func (s *vReadStream) Send(r *btpb.ReadRowsResponse) error {
	s.msgs = append(s.msgs, r)
	if s.onSend != nil {
		s.onSend()
	}
	return nil
}

type vMutateStream struct {
	vStreamBase
	msgs []*btpb.MutateRowsResponse
}

func (s *vMutateStream) Send(r *btpb.MutateRowsResponse) error {
	s.msgs = append(s.msgs, r)
	return nil
}

type vSampleStream struct {
	vStreamBase
	msgs []*btpb.SampleRowKeysResponse
}

func (s *vSampleStream) Send(r *btpb.SampleRowKeysResponse) error {
	s.msgs = append(s.msgs, r)
	return nil
}

// ---- decoded reads ----

type vCell struct {
	fam    string
	qual   []byte
	ts     int64
	val    []byte
	labels []string
}

type vRow struct {
	key   []byte
	cells []vCell
}

var errBadStream = errors.New("malformed chunk stream")

// vDecode runs the standard ReadRows chunk state machine over the recorded
// responses. ok=false means the stream is not well formed.
func vDecode(msgs []*btpb.ReadRowsResponse) (rows []vRow, ok bool) {
	var cur *vRow
	fam := ""
	var qual []byte
	haveFam, haveQual := false, false
	for _, m := range msgs {
		for _, ch := range m.Chunks {
			if cur == nil {
				// first chunk of a row must carry key, family and qualifier
				if ch.RowKey == nil || ch.FamilyName == nil || ch.Qualifier == nil {
					return nil, false
				}
				cur = &vRow{key: ch.RowKey}
				haveFam, haveQual = false, false
			} else if ch.RowKey != nil {
				return nil, false
			}
			if ch.FamilyName != nil {
				fam = ch.FamilyName.Value
				haveFam = true
				if ch.Qualifier == nil {
					return nil, false
				}
			}
			if ch.Qualifier != nil {
				qual = ch.Qualifier.Value
				haveQual = true
			}
			if !haveFam || !haveQual {
				return nil, false
			}
			cur.cells = append(cur.cells, vCell{fam: fam, qual: qual, ts: ch.TimestampMicros, val: ch.Value, labels: ch.Labels})
			switch st := ch.RowStatus.(type) {
			case *btpb.ReadRowsResponse_CellChunk_CommitRow:
				if !st.CommitRow {
					return nil, false
				}
				rows = append(rows, *cur)
				cur = nil
			case *btpb.ReadRowsResponse_CellChunk_ResetRow:
				return nil, false
			}
		}
	}
	if cur != nil {
		return nil, false // chunks after the last commit
	}
	return rows, true
}

// vReadAll performs an unfiltered full-table ReadRows and decodes it.
func vReadAll(s *server) []vRow {
	st := &vReadStream{}
	err := s.ReadRows(&btpb.ReadRowsRequest{TableName: vTable}, st)
	vAssert(err == nil, "readall-ok")
	rows, ok := vDecode(st.msgs)
	vAssert(ok, "readall-wellformed")
	return rows
}

// vRowsEq builds one term: the two decoded reads are identical.
func vRowsEq(a, b []vRow) bool {
	if len(a) != len(b) {
		return false
	}
	eq := true
	for i := range a {
		if len(a[i].cells) != len(b[i].cells) {
			return false
		}
		eq = vAnd(eq, vBytesEq(a[i].key, b[i].key))
		for j := range a[i].cells {
			x, y := a[i].cells[j], b[i].cells[j]
			if x.fam != y.fam || len(x.labels) != len(y.labels) {
				return false
			}
			eq = vAnd(eq, vAnd(vBytesEq(x.qual, y.qual), vAnd(x.ts == y.ts, vBytesEq(x.val, y.val))))
		}
	}
	return eq
}

// vValidTS is the API's validity predicate for cell timestamps.
func vValidTS(ts int64) bool {
	return vAnd(ts >= 0, vAnd(ts <= maxValidMilliSeconds, ts%1000 == 0))
}
