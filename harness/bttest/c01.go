package bttest

// C01 — reads reflect exactly the mutations applied (data-model equivalence).
//
// Inductive step: an arbitrary valid stored state (symbolic keys, qualifiers,
// timestamps, values) is constructed directly, ONE request with symbolic
// mutations runs through the real handler, and an unfiltered read is compared
// with a fork-free reference model (a bag of cells with symbolic "alive"
// flags). H_C01_seq additionally runs two requests from an empty table.

import (
	"cloud.google.com/go/bigtable"
	btpb "cloud.google.com/go/bigtable/apiv2/bigtablepb"
	"google.golang.org/grpc/codes"
)

type mCell struct {
	ts    int64
	val   []byte
	alive bool
}

// mState: [row][family][qualifier] -> cells (unordered bag, distinct ts among alive cells).
type mState struct {
	keys  [][]byte // ascending, distinct
	quals [][]byte // ascending, distinct
	fams  []string
	cols  [][][][]mCell
}

func newMState(keys, quals [][]byte) *mState {
	m := &mState{keys: keys, quals: quals, fams: []string{"f", "g"}}
	m.cols = make([][][][]mCell, len(keys))
	for r := range m.cols {
		m.cols[r] = make([][][]mCell, len(m.fams))
		for f := range m.cols[r] {
			m.cols[r][f] = make([][]mCell, len(quals))
		}
	}
	return m
}

func (m *mState) clone() *mState {
	n := newMState(m.keys, m.quals)
	for r := range m.cols {
		for f := range m.cols[r] {
			for q := range m.cols[r][f] {
				n.cols[r][f][q] = append([]mCell{}, m.cols[r][f][q]...)
			}
		}
	}
	return n
}

func famIdx(name string) int {
	switch name {
	case "f":
		return 0
	case "g":
		return 1
	}
	return -1
}

// mMut is one mutation together with its effect on the model.
type mMut struct {
	pb      *btpb.Mutation
	invalid bool                   // may be symbolic
	apply   func(m *mState, r int) // effect on row r of the model
}

func c01FamName(c int) string {
	switch c {
	case 0:
		return "f"
	case 1:
		return "nosuch"
	}
	return "g"
}

// c01Mutation builds one mutation of a chosen kind with symbolic scalars.
func c01Mutation(quals [][]byte, nowMs int64, nfam int) mMut {
	return c01MutationOf(quals, nowMs, nfam, 0)
}

// kindSet 0: all five kinds; 1: SetCell, DeleteFromColumn with a range, DeleteFromRow.
func c01MutationOf(quals [][]byte, nowMs int64, nfam int, kindSet int) mMut {
	kind := 0
	if kindSet == 1 {
		kind = []int{0, 2, 4}[vChoice("mut.kind", 0, 2)]
	} else if kindSet == 2 {
		kind = 0 // SetCell only
	} else {
		kind = vChoice("mut.kind", 0, 4)
	}
	switch kind {
	case 0: // SetCell
		fam := c01FamName(vChoice("mut.fam", 0, nfam))
		qi := vChoice("mut.qual", 0, len(quals)-1)
		ts := vNondetInt64("set.ts")
		val := vNondetBytes("set.val", vChoice("set.vallen", vBound("minvallen", 1, 0), 1))
		eff := vIteInt64(ts == -1, nowMs, ts)
		mm := mMut{pb: &btpb.Mutation{Mutation: &btpb.Mutation_SetCell_{SetCell: &btpb.Mutation_SetCell{
			FamilyName: fam, ColumnQualifier: quals[qi], TimestampMicros: ts, Value: val}}}}
		fi := famIdx(fam)
		mm.invalid = vOr(fi < 0, vNot(vValidTS(eff)))
		mm.apply = func(m *mState, r int) {
			if fi < 0 {
				return
			}
			cs := m.cols[r][fi][qi]
			for i := range cs {
				cs[i].alive = vAnd(cs[i].alive, cs[i].ts != eff)
			}
			m.cols[r][fi][qi] = append(cs, mCell{ts: eff, val: val, alive: true})
		}
		return mm
	case 1: // DeleteFromColumn, whole column
		fam := c01FamName(vChoice("mut.fam", 0, nfam))
		qi := vChoice("mut.qual", 0, len(quals)-1)
		mm := mMut{pb: &btpb.Mutation{Mutation: &btpb.Mutation_DeleteFromColumn_{DeleteFromColumn: &btpb.Mutation_DeleteFromColumn{
			FamilyName: fam, ColumnQualifier: quals[qi]}}}}
		fi := famIdx(fam)
		mm.invalid = fi < 0
		mm.apply = func(m *mState, r int) {
			if fi < 0 {
				return
			}
			cs := m.cols[r][fi][qi]
			for i := range cs {
				cs[i].alive = false
			}
		}
		return mm
	case 2: // DeleteFromColumn with a time range [start,end); end 0 = unbounded
		fam := c01FamName(vChoice("mut.fam", 0, nfam))
		qi := vChoice("mut.qual", 0, len(quals)-1)
		st := vNondetInt64("del.start")
		en := vNondetInt64("del.end")
		mm := mMut{pb: &btpb.Mutation{Mutation: &btpb.Mutation_DeleteFromColumn_{DeleteFromColumn: &btpb.Mutation_DeleteFromColumn{
			FamilyName: fam, ColumnQualifier: quals[qi], TimeRange: &btpb.TimestampRange{StartTimestampMicros: st, EndTimestampMicros: en}}}}}
		fi := famIdx(fam)
		badRange := vOr(vNot(vValidTS(st)), vAnd(en != 0, vOr(vNot(vValidTS(en)), st >= en)))
		mm.invalid = vOr(fi < 0, badRange)
		mm.apply = func(m *mState, r int) {
			if fi < 0 {
				return
			}
			cs := m.cols[r][fi][qi]
			for i := range cs {
				in := vAnd(cs[i].ts >= st, vOr(en == 0, cs[i].ts < en))
				cs[i].alive = vAnd(cs[i].alive, vNot(in))
			}
		}
		return mm
	case 3: // DeleteFromFamily
		fam := c01FamName(vChoice("mut.fam", 0, nfam))
		mm := mMut{pb: &btpb.Mutation{Mutation: &btpb.Mutation_DeleteFromFamily_{DeleteFromFamily: &btpb.Mutation_DeleteFromFamily{FamilyName: fam}}}}
		fi := famIdx(fam)
		mm.invalid = fi < 0
		mm.apply = func(m *mState, r int) {
			if fi < 0 {
				return
			}
			for q := range m.cols[r][fi] {
				cs := m.cols[r][fi][q]
				for i := range cs {
					cs[i].alive = false
				}
			}
		}
		return mm
	}
	// DeleteFromRow
	mm := mMut{pb: &btpb.Mutation{Mutation: &btpb.Mutation_DeleteFromRow_{DeleteFromRow: &btpb.Mutation_DeleteFromRow{}}}}
	mm.apply = func(m *mState, r int) {
		for f := range m.cols[r] {
			for q := range m.cols[r][f] {
				cs := m.cols[r][f][q]
				for i := range cs {
					cs[i].alive = false
				}
			}
		}
	}
	return mm
}

// mSelect returns the model that equals pre where cond holds and post otherwise.
// post extends pre cell-for-cell (only alive flags differ, new cells appended).
func mSelect(cond bool, pre, post *mState) *mState {
	out := post.clone()
	for r := range out.cols {
		for f := range out.cols[r] {
			for q := range out.cols[r][f] {
				cs := out.cols[r][f][q]
				old := pre.cols[r][f][q]
				for i := range cs {
					was := false
					if i < len(old) {
						was = old[i].alive
					}
					cs[i].alive = vIteBool(cond, was, cs[i].alive)
				}
			}
		}
	}
	return out
}

// c01Compare asserts that the decoded read equals the model.
func c01Compare(m *mState, rows []vRow, tag string) {
	// (a) every returned key is one of the model keys; keys strictly ascending
	asc := true
	for j := range rows {
		if j > 0 {
			asc = vAnd(asc, vBytesCmp(rows[j-1].key, rows[j].key) < 0)
		}
	}
	vAssert(asc, tag+":rows-ascending")
	for r := range m.keys {
		// present in model?
		present := false
		for f := range m.cols[r] {
			for q := range m.cols[r][f] {
				for _, c := range m.cols[r][f][q] {
					present = vOr(present, c.alive)
				}
			}
		}
		returned := false
		for j := range rows {
			returned = vOr(returned, vBytesEq(rows[j].key, m.keys[r]))
		}
		vAssert(returned == present, tag+":row-present-iff-has-cells")
	}
	for j := range rows {
		known := false
		for r := range m.keys {
			known = vOr(known, vBytesEq(rows[j].key, m.keys[r]))
		}
		vAssert(known, tag+":only-written-rows")
		// (b) order inside the row: each family in one block, qualifiers ascending, timestamps descending
		cells := rows[j].cells
		vAssert(len(cells) > 0, tag+":no-empty-row")
		var seenFams []string
		ord := true
		for i := range cells {
			if i > 0 && cells[i].fam == cells[i-1].fam {
				c := vBytesCmp(cells[i-1].qual, cells[i].qual)
				ord = vAnd(ord, vOr(c < 0, vAnd(c == 0, cells[i-1].ts > cells[i].ts)))
				continue
			}
			for _, sf := range seenFams {
				if sf == cells[i].fam {
					vAssert(false, tag+":family-once")
				}
			}
			seenFams = append(seenFams, cells[i].fam)
		}
		vAssert(ord, tag+":columns-ascending-cells-descending")
		// (c) contents: per model row r (when keys match), per column: same count, every alive cell present
		for r := range m.keys {
			isRow := vBytesEq(rows[j].key, m.keys[r])
			okRow := true
			for _, c := range cells {
				fi := famIdx(c.fam)
				if fi < 0 {
					okRow = false
					continue
				}
				kq := false
				for q := range m.quals {
					kq = vOr(kq, vBytesEq(c.qual, m.quals[q]))
				}
				okRow = vAnd(okRow, kq)
			}
			for f := range m.cols[r] {
				for q := range m.cols[r][f] {
					var nAlive, nActual int64
					for _, mc := range m.cols[r][f][q] {
						nAlive += vIteInt64(mc.alive, 1, 0)
						found := false
						for _, c := range cells {
							if famIdx(c.fam) != f || len(c.val) != len(mc.val) {
								continue
							}
							found = vOr(found, vAnd(vBytesEq(c.qual, m.quals[q]), vAnd(c.ts == mc.ts, vBytesEq(c.val, mc.val))))
						}
						okRow = vAnd(okRow, vImplies(mc.alive, found))
					}
					for _, c := range cells {
						if famIdx(c.fam) == f {
							nActual += vIteInt64(vBytesEq(c.qual, m.quals[q]), 1, 0)
						}
					}
					okRow = vAnd(okRow, nAlive == nActual)
				}
			}
			vAssert(vImplies(isRow, okRow), tag+":cells-equal-model")
		}
	}
}

// c01Keys returns n distinct ascending symbolic byte strings of length 1..maxLen.
func c01Keys(name string, n, maxLen int) [][]byte {
	var out [][]byte
	for i := 0; i < n; i++ {
		k := vNondetBytes(name, vChoice(name+".len", 1, maxLen))
		if i > 0 {
			vAssume(vBytesCmp(out[i-1], k) < 0)
		}
		out = append(out, k)
	}
	return out
}

// c01Seed stores an arbitrary valid pre-state directly and returns its model.
// profile: 0 = several columns (quick: row 0 f:q0 0..2, f:q1 0..1, row 1 one cell; thorough adds g:q0 and an optional row 1),
// 1 = one column only (row 0 f:q0 0..2), 2 = two rows with f:q0 0..1 each, 3 = row 0 f:q0 0..1 only. In the thorough tier every profile is 0.
func c01Seed(s *server, m *mState, profile int) {
	tbl := s.tables[vTable]
	full := vBound("prestate-full", 0, 1)
	if full == 1 {
		profile = 0
	}
	for r := range m.keys {
		row := &btpb.Row{Key: m.keys[r]}
		for f, fname := range m.fams {
			fam := &btpb.Family{Name: fname}
			for q := range m.quals {
				// shape of the pre-state: row 0 / family f / qualifier 0 gets up to 2 versions,
				// f:q1 (and, thorough, g:q0) up to 1; row 1 holds one f:q0 cell (thorough: 0..1)
				max, min := 1, 0
				if r == 0 && f == 0 && q == 0 {
					max = 2
				}
				if r > 0 && (f > 0 || q > 0) {
					max = 0
				}
				if f > 0 && (q > 0 || full == 0) {
					max = 0
				}
				if r > 0 && max > 0 && full == 0 {
					min = 1
				}
				if profile == 1 && !(r == 0 && f == 0 && q == 0) {
					max = 0
				}
				if profile == 3 {
					min = 0
					if r == 0 && f == 0 && q == 0 {
						max = 1
					} else {
						max = 0
					}
				}
				if profile == 2 {
					min = 0
					if f != 0 || q != 0 {
						max = 0
					} else {
						max = 1
					}
				}
				n := 0
				if max > 0 {
					n = vChoice("pre.n", min, max)
				}
				if n == 0 {
					continue
				}
				col := &btpb.Column{Qualifier: m.quals[q]}
				for i := 0; i < n; i++ {
					ts := vNondetInt64("pre.ts")
					vAssume(vValidTS(ts))
					if i > 0 {
						vAssume(ts < col.Cells[i-1].TimestampMicros)
					}
					val := vNondetBytes("pre.val", 1)
					col.Cells = append(col.Cells, &btpb.Cell{TimestampMicros: ts, Value: val})
					m.cols[r][f][q] = append(m.cols[r][f][q], mCell{ts: ts, val: val, alive: true})
				}
				fam.Columns = append(fam.Columns, col)
			}
			if len(fam.Columns) > 0 {
				row.Families = append(row.Families, fam)
			}
		}
		if len(row.Families) > 0 {
			tbl.rows.ReplaceOrInsert(row)
		}
	}
}

func c01Setup(engName string, emptyQual bool) (*server, int64, *mState) {
	eng := vChoice(engName, 0, vBound("engines", 0, 1))
	now := vNondetInt64("now")
	vAssume(now >= 0)
	s := vNewServer(eng, func() bigtable.Timestamp { return bigtable.Timestamp(now) })
	vCreateTable(s, "f", "g")
	keys := c01Keys("key", 2, vBound("keylen", 1, 2))
	quals := c01Keys("qual", 2, 1)
	// the empty qualifier is a valid qualifier: let the first one be empty on some paths
	if emptyQual || vBound("prestate-full", 0, 1) == 1 {
		if vChoice("qual0.empty", 0, 1) == 1 {
			quals[0] = []byte{}
		}
	}
	return s, now - now%1000, newMState(keys, quals)
}

// c01Request issues one request of a chosen shape and returns the expected model.
// shape: 0 = MutateRow with 1..2 mutations or MutateRows, 1 = MutateRow with exactly one mutation,
// 2 = MutateRow with exactly two mutations, 3 = MutateRows (two entries), 4 = MutateRows (one entry, two mutations),
// 5 = MutateRows (two entries; the first with two mutations, reduced mutation kinds).
func c01Request(s *server, m *mState, nowMs int64, tag string, shape int) *mState {
	nfam := vBound("family-choices", 1, 2)
	kind := 0
	switch shape {
	case 0:
		kind = vChoice("req.kind", 0, 1)
	case 3, 4, 5:
		kind = 1
	}
	if kind == 0 {
		// MutateRow: 1..2 mutations on one row, all-or-nothing
		r := vChoice("req.row", 0, len(m.keys)-1)
		n := shape
		if shape == 0 {
			n = vChoice("req.nmut", 1, 2)
		}
		post := m.clone()
		invalid := false
		var muts []*btpb.Mutation
		for i := 0; i < n; i++ {
			mm := c01Mutation(m.quals, nowMs, nfam)
			muts = append(muts, mm.pb)
			invalid = vOr(invalid, mm.invalid)
			mm.apply(post, r)
		}
		_, err := s.MutateRow(vCtx(), &btpb.MutateRowRequest{TableName: vTable, RowKey: m.keys[r], Mutations: muts})
		vAssert((err != nil) == invalid, tag+":mutaterow-error-iff-invalid")
		vReach("c01-mutaterow")
		return mSelect(invalid, m, post)
	}
	// MutateRows: two entries, one mutation each (second entry may hit the same row)
	req := &btpb.MutateRowsRequest{TableName: vTable}
	cur := m
	var invalids []bool
	nent := 2
	if shape == 4 {
		nent = 1
	}
	for e := 0; e < nent; e++ {
		r := vChoice("entry.row", 0, len(m.keys)-1)
		n := 1
		if shape == 4 || (shape == 5 && e == 0) {
			n = 2
		} else if shape != 5 && vBound("entrymuts", 1, 2) == 2 {
			n = vChoice("entry.nmut", 1, 2)
		}
		post := cur.clone()
		invalid := false
		var muts []*btpb.Mutation
		for i := 0; i < n; i++ {
			ks := 0
			if shape == 5 {
				// first entry: SetCell then any of {SetCell, ranged delete, delete row}; second entry: one SetCell
				ks = 2
				if e == 0 && i == 1 {
					ks = 1
				}
			}
			mm := c01MutationOf(m.quals, nowMs, nfam, ks)
			muts = append(muts, mm.pb)
			invalid = vOr(invalid, mm.invalid)
			mm.apply(post, r)
		}
		req.Entries = append(req.Entries, &btpb.MutateRowsRequest_Entry{RowKey: m.keys[r], Mutations: muts})
		invalids = append(invalids, invalid)
		cur = mSelect(invalid, cur, post)
	}
	st := &vMutateStream{}
	err := s.MutateRows(req, st)
	vAssert(err == nil, tag+":mutaterows-ok")
	okShape := len(st.msgs) == 1 && len(st.msgs[0].Entries) == nent
	vAssert(okShape, tag+":mutaterows-one-status-per-entry")
	if okShape {
		for e, ent := range st.msgs[0].Entries {
			bad := ent.Status == nil || ent.Status.Code != int32(codes.OK)
			vAssert(ent.Index == int64(e), tag+":entry-index")
			vAssert(bad == invalids[e], tag+":entry-status-error-iff-invalid")
		}
	}
	vReach("c01-mutaterows")
	return cur
}

// H_C01_step1: arbitrary valid pre-state (several columns, two rows), one single-mutation MutateRow.
func H_C01_step1() {
	s, nowMs, m := c01Setup("engine", true)
	c01Seed(s, m, 0)
	c01Compare(m, vReadAll(s), "pre")
	m2 := c01Request(s, m, nowMs, "step", 1)
	c01Compare(m2, vReadAll(s), "post")
}

// H_C01_step2: one column with 0..2 versions, one MutateRow with two mutations (all-or-nothing).
func H_C01_step2() {
	s, nowMs, m := c01Setup("engine", false)
	c01Seed(s, m, 1)
	m2 := c01Request(s, m, nowMs, "step", 2)
	c01Compare(m2, vReadAll(s), "post")
}

// H_C01_step3: two rows, one MutateRows with two entries (per-entry status, entries applied in order).
func H_C01_step3() {
	s, nowMs, m := c01Setup("engine", false)
	c01Seed(s, m, 2)
	m2 := c01Request(s, m, nowMs, "step", 3)
	c01Compare(m2, vReadAll(s), "post")
}

// H_C01_step4: one column with 0..2 versions, MutateRows with one entry of two mutations
// (an entry whose later mutation is invalid must leave the row untouched).
func H_C01_step4() {
	s, nowMs, m := c01Setup("engine", false)
	c01Seed(s, m, 1)
	m2 := c01Request(s, m, nowMs, "step", 4)
	c01Compare(m2, vReadAll(s), "post")
}

// H_C01_step5: MutateRows with two entries, the first carrying two mutations (a failed entry must
// leave no trace that a later entry on the same row could pick up).
func H_C01_step5() {
	s, nowMs, m := c01Setup("engine", false)
	c01Seed(s, m, 3)
	m2 := c01Request(s, m, nowMs, "step", 5)
	c01Compare(m2, vReadAll(s), "post")
}

// H_C01_cols: many columns in one family. Qualifiers "0" < a < b < c < d; a..d each hold one cell,
// "0" holds none. One MutateRow with 2..3 mutations, each a whole-column delete or a SetCell on
// any of the five qualifiers: columns that empty, columns that appear, and untouched columns in between.
func H_C01_cols() {
	eng := vChoice("engine", 0, vBound("engines", 0, 1))
	s := vNewServer(eng, func() bigtable.Timestamp { return 0 })
	vCreateTable(s, "f", "g")
	quals := [][]byte{[]byte("0"), []byte("a"), []byte("b"), []byte("c"), []byte("d")}
	m := newMState([][]byte{[]byte("r")}, quals)
	row := &btpb.Row{Key: []byte("r")}
	fam := &btpb.Family{Name: "f"}
	for q := 1; q < len(quals); q++ {
		val := vNondetBytes("pre.val", 1)
		fam.Columns = append(fam.Columns, &btpb.Column{Qualifier: quals[q], Cells: []*btpb.Cell{{TimestampMicros: 1000, Value: val}}})
		m.cols[0][0][q] = append(m.cols[0][0][q], mCell{ts: 1000, val: val, alive: true})
	}
	row.Families = []*btpb.Family{fam}
	s.tables[vTable].rows.ReplaceOrInsert(row)
	n := vChoice("req.nmut", 2, 3)
	post := m.clone()
	var muts []*btpb.Mutation
	for i := 0; i < n; i++ {
		qi := vChoice("mut.qual", 0, len(quals)-1)
		if vChoice("mut.kind", 0, 1) == 0 {
			muts = append(muts, &btpb.Mutation{Mutation: &btpb.Mutation_DeleteFromColumn_{DeleteFromColumn: &btpb.Mutation_DeleteFromColumn{
				FamilyName: "f", ColumnQualifier: quals[qi]}}})
			cs := post.cols[0][0][qi]
			for j := range cs {
				cs[j].alive = false
			}
		} else {
			val := vNondetBytes("set.val", 1)
			muts = append(muts, &btpb.Mutation{Mutation: &btpb.Mutation_SetCell_{SetCell: &btpb.Mutation_SetCell{
				FamilyName: "f", ColumnQualifier: quals[qi], TimestampMicros: 2000, Value: val}}})
			cs := post.cols[0][0][qi]
			for j := range cs {
				cs[j].alive = vAnd(cs[j].alive, cs[j].ts != 2000)
			}
			post.cols[0][0][qi] = append(cs, mCell{ts: 2000, val: val, alive: true})
		}
	}
	_, err := s.MutateRow(vCtx(), &btpb.MutateRowRequest{TableName: vTable, RowKey: []byte("r"), Mutations: muts})
	vAssert(err == nil, "cols:mutaterow-ok")
	c01Compare(post, vReadAll(s), "cols")
	vReach("c01-cols")
}

// H_C01_seq: empty table, two requests of any shape, a read after each (thorough tier).
func H_C01_seq() {
	s, nowMs, m := c01Setup("engine", true)
	m1 := c01Request(s, m, nowMs, "req1", 0)
	c01Compare(m1, vReadAll(s), "after1")
	m2 := c01Request(s, m1, nowMs, "req2", 0)
	c01Compare(m2, vReadAll(s), "after2")
}

func init() {
	vHarnesses["H_C01_step1"] = H_C01_step1
	vHarnesses["H_C01_step2"] = H_C01_step2
	vHarnesses["H_C01_step3"] = H_C01_step3
	vHarnesses["H_C01_step4"] = H_C01_step4
	vHarnesses["H_C01_step5"] = H_C01_step5
	vHarnesses["H_C01_seq"] = H_C01_seq
	vHarnesses["H_C01_cols"] = H_C01_cols
}
