package bttest

// C06 — single-row writes are all-or-nothing and linearizable per row.
// Failure atomicity (sequential) is decided by H_C01_step2/step4, H_C12_cam and
// H_C13_rmw; the harnesses here decide isolation under all interleavings of the
// real handlers (schedule points before every mutex/atomic operation).

import (
	"encoding/binary"

	"cloud.google.com/go/bigtable"
	btpb "cloud.google.com/go/bigtable/apiv2/bigtablepb"
)

func c06Server() *server {
	s := vNewServer(vChoice("engine", 0, vBound("engines", 0, 1)), func() bigtable.Timestamp { return 5000 })
	vCreateTable(s, "f")
	return s
}

func c06Incr(s *server, amount int64) (int64, error) {
	resp, err := s.ReadModifyWriteRow(vCtx(), &btpb.ReadModifyWriteRowRequest{TableName: vTable, RowKey: []byte("r"),
		Rules: []*btpb.ReadModifyWriteRule{{FamilyName: "f", ColumnQualifier: []byte("n"), Rule: &btpb.ReadModifyWriteRule_IncrementAmount{IncrementAmount: amount}}}})
	if err != nil {
		return 0, err
	}
	v := resp.Row.Families[0].Columns[0].Cells[0].Value
	if len(v) != 8 {
		vAssert(false, "increment-response-8-bytes")
		return 0, nil
	}
	return int64(binary.BigEndian.Uint64(v)), nil
}

// H_C06_incr: N concurrent increments add exactly N; responses are explained by a serial order.
func H_C06_incr() {
	s := c06Server()
	v0 := vNondetInt64("initial")
	_, err := c06Incr(s, v0)
	if err != nil {
		vFatal("setup increment")
	}
	n := vBound("writers", 2, 3)
	amounts := make([]int64, n)
	resps := make([]int64, n)
	errs := make([]error, n)
	for i := 0; i < n; i++ {
		i := i
		amounts[i] = vNondetInt64("amount")
		vGo(func() { resps[i], errs[i] = c06Incr(s, amounts[i]) })
	}
	vJoin()
	for i := 0; i < n; i++ {
		vAssert(errs[i] == nil, "increment-ok")
	}
	sum := v0
	for _, a := range amounts {
		sum += a
	}
	final, err := c06Incr(s, 0)
	vAssert(err == nil && final == sum, "no-lost-update: final value is the sum of all increments")
	// some permutation explains every response
	perms := [][]int{{0, 1}, {1, 0}}
	if n == 3 {
		perms = [][]int{{0, 1, 2}, {0, 2, 1}, {1, 0, 2}, {1, 2, 0}, {2, 0, 1}, {2, 1, 0}}
	}
	explained := false
	for _, p := range perms {
		acc := v0
		ok := true
		for _, i := range p {
			acc += amounts[i]
			ok = vAnd(ok, resps[i] == acc)
		}
		explained = vOr(explained, ok)
	}
	vAssert(explained, "responses-explained-by-a-serial-order")
	vReach("c06-incr")
}

// H_C06_cam: two check-and-mutates that each claim a flag only if it is absent: exactly one wins.
func H_C06_cam() {
	s := c06Server()
	claim := func(id byte) (bool, error) {
		resp, err := s.CheckAndMutateRow(vCtx(), &btpb.CheckAndMutateRowRequest{TableName: vTable, RowKey: []byte("r"),
			PredicateFilter: &btpb.RowFilter{Filter: &btpb.RowFilter_PassAllFilter{PassAllFilter: true}},
			FalseMutations: []*btpb.Mutation{{Mutation: &btpb.Mutation_SetCell_{SetCell: &btpb.Mutation_SetCell{
				FamilyName: "f", ColumnQualifier: []byte("owner"), TimestampMicros: 1000, Value: []byte{id}}}}}})
		if err != nil {
			return false, err
		}
		return resp.PredicateMatched, nil
	}
	var m [2]bool
	var e [2]error
	vGo(func() { m[0], e[0] = claim(1) })
	vGo(func() { m[1], e[1] = claim(2) })
	vJoin()
	vAssert(e[0] == nil && e[1] == nil, "cam-ok")
	vAssert(m[0] != m[1], "exactly-one-claimer-saw-the-flag-absent")
	rows := vReadAll(s)
	okOwner := len(rows) == 1 && len(rows[0].cells) == 1 && len(rows[0].cells[0].val) == 1
	vAssert(okOwner, "one-owner-cell")
	if okOwner {
		winner := byte(1)
		if m[0] {
			winner = 2 // claimer 0 saw the flag present, so claimer 1 set it
		}
		vAssert(rows[0].cells[0].val[0] == winner, "owner-is-the-claimer-that-saw-no-flag")
	}
	vReach("c06-cam")
}

// H_C06_reader: a reader never observes half of a multi-mutation request.
func H_C06_reader() {
	s := c06Server()
	set := func(q string, v byte) *btpb.Mutation {
		return &btpb.Mutation{Mutation: &btpb.Mutation_SetCell_{SetCell: &btpb.Mutation_SetCell{
			FamilyName: "f", ColumnQualifier: []byte(q), TimestampMicros: 1000, Value: []byte{v}}}}
	}
	viaRows := vChoice("writer.kind", 0, 1) == 1
	vGo(func() {
		if viaRows {
			st := &vMutateStream{}
			err := s.MutateRows(&btpb.MutateRowsRequest{TableName: vTable, Entries: []*btpb.MutateRowsRequest_Entry{
				{RowKey: []byte("r"), Mutations: []*btpb.Mutation{set("a", 1), set("b", 1)}}}}, st)
			vAssert(err == nil, "mutaterows-ok")
		} else {
			_, err := s.MutateRow(vCtx(), &btpb.MutateRowRequest{TableName: vTable, RowKey: []byte("r"), Mutations: []*btpb.Mutation{set("a", 1), set("b", 1)}})
			vAssert(err == nil, "mutaterow-ok")
		}
	})
	var seen []vRow
	var rerr error
	var okStream bool
	vGo(func() {
		st := &vReadStream{}
		rerr = s.ReadRows(&btpb.ReadRowsRequest{TableName: vTable}, st)
		seen, okStream = vDecode(st.msgs)
	})
	vJoin()
	vAssert(rerr == nil && okStream, "read-ok")
	if len(seen) == 0 {
		vReach("c06-reader-before")
	} else {
		vAssert(len(seen) == 1 && len(seen[0].cells) == 2, "reader-sees-whole-request-or-nothing")
		vReach("c06-reader-after")
	}
}

func init() {
	vHarnesses["H_C06_incr"] = H_C06_incr
	vHarnesses["H_C06_cam"] = H_C06_cam
	vHarnesses["H_C06_reader"] = H_C06_reader
}
