package bttest

// C13 — ReadModifyWriteRow increments and appends against the latest cell.

import (
	"encoding/binary"

	"cloud.google.com/go/bigtable"
	btpb "cloud.google.com/go/bigtable/apiv2/bigtablepb"
)

type c13Cell struct {
	ts  int64
	val []byte
}

// c13Col is the model of one column: cells in descending timestamp order.
type c13Col struct {
	fam   string
	qual  []byte
	cells []c13Cell
}

func c13Find(cols []*c13Col, fam string, qual []byte) *c13Col {
	for _, c := range cols {
		// qualifiers in this harness are concrete
		if c.fam == fam && string(c.qual) == string(qual) {
			return c
		}
	}
	return nil
}

// H_C13_rmw: one row, prior cells symbolic, a symbolic rule list.
func H_C13_rmw() {
	eng := vChoice("engine", 0, vBound("engines", 0, 1))
	now := vNondetInt64("now")
	vAssume(now >= 0)
	s := vNewServer(eng, func() bigtable.Timestamp { return bigtable.Timestamp(now) })
	vCreateTable(s, "f", "g")
	tbl := s.tables[vTable]
	key := []byte("r")
	quals := [][]byte{[]byte("a"), []byte("b")}

	// prior state of column f:a: 0..2 versions with arbitrary valid descending
	// timestamps (possibly in the future of the clock); value lengths 0, 8 or 3.
	var model []*c13Col
	nprev := vChoice("nprev", 0, 2)
	if nprev > 0 {
		col := &btpb.Column{Qualifier: quals[0]}
		mc := &c13Col{fam: "f", qual: quals[0]}
		for i := 0; i < nprev; i++ {
			ts := vNondetInt64("prev.ts")
			vAssume(vValidTS(ts))
			if i > 0 {
				vAssume(ts < mc.cells[i-1].ts)
			}
			var val []byte
			switch vChoice("prev.len", 0, 2) {
			case 0:
				val = nil
			case 1:
				val = vNondetBytes("prev.val", 8)
			case 2:
				val = vNondetBytes("prev.val", 3)
			}
			col.Cells = append(col.Cells, &btpb.Cell{TimestampMicros: ts, Value: val})
			mc.cells = append(mc.cells, c13Cell{ts: ts, val: val})
		}
		tbl.rows.ReplaceOrInsert(&btpb.Row{Key: key, Families: []*btpb.Family{{Name: "f", Columns: []*btpb.Column{col}}}})
		model = append(model, mc)
	}
	before := vReadAll(s)

	// rules
	nrules := vChoice("nrules", 1, vBound("rules", 2, 3))
	req := &btpb.ReadModifyWriteRowRequest{TableName: vTable, RowKey: key}
	type ruleSpec struct {
		fam    string
		qual   []byte
		inc    bool
		amount int64
		app    []byte
	}
	var specs []ruleSpec
	for i := 0; i < nrules; i++ {
		rs := ruleSpec{}
		switch vChoice("rule.fam", 0, 3) {
		case 0:
			rs.fam = "f"
		case 1:
			rs.fam = "g"
		case 2:
			rs.fam = "nosuch"
		case 3:
			rs.fam = "" // the empty name is an unknown family too
		}
		rs.qual = quals[vChoice("rule.qual", 0, 1)]
		rule := &btpb.ReadModifyWriteRule{FamilyName: rs.fam, ColumnQualifier: rs.qual}
		if vChoice("rule.kind", 0, 1) == 0 {
			rs.inc = true
			rs.amount = vNondetInt64("rule.amount")
			rule.Rule = &btpb.ReadModifyWriteRule_IncrementAmount{IncrementAmount: rs.amount}
		} else {
			rs.app = vNondetBytes("rule.append", vChoice("rule.applen", 0, 2))
			rule.Rule = &btpb.ReadModifyWriteRule_AppendValue{AppendValue: rs.app}
		}
		req.Rules = append(req.Rules, rule)
		specs = append(specs, rs)
	}

	resp, err := s.ReadModifyWriteRow(vCtx(), req)
	after := vReadAll(s)

	// ---- reference model ----
	nowMs := now - now%1000
	fail := false
	type written struct {
		col *c13Col
	}
	var touched []*c13Col
	for _, rs := range specs {
		if rs.fam == "nosuch" || rs.fam == "" {
			fail = true
			break
		}
		mc := c13Find(model, rs.fam, rs.qual)
		if mc == nil {
			mc = &c13Col{fam: rs.fam, qual: rs.qual}
			model = append(model, mc)
		}
		ts := nowMs
		var prev []byte
		have := len(mc.cells) > 0
		if have {
			prev = mc.cells[0].val
			ts = vIteInt64(mc.cells[0].ts > ts, mc.cells[0].ts, ts)
		}
		var nv []byte
		if rs.inc {
			var v uint64
			if have {
				if len(prev) != 8 {
					fail = true
					break
				}
				v = binary.BigEndian.Uint64(prev)
			}
			v += uint64(rs.amount)
			nv = make([]byte, 8)
			binary.BigEndian.PutUint64(nv, v)
		} else {
			nv = append(append([]byte{}, prev...), rs.app...)
		}
		// same timestamp as the newest cell replaces it, otherwise a new newest cell
		if have {
			same := mc.cells[0].ts == ts
			if same {
				vTag("replace-newest")
				mc.cells = append([]c13Cell{{ts: ts, val: nv}}, mc.cells[1:]...)
			} else {
				mc.cells = append([]c13Cell{{ts: ts, val: nv}}, mc.cells...)
			}
		} else {
			mc.cells = []c13Cell{{ts: ts, val: nv}}
		}
		seen := false
		for _, t := range touched {
			if t == mc {
				seen = true
			}
		}
		if !seen {
			touched = append(touched, mc)
		}
	}

	if fail {
		vReach("c13-fail")
		vAssert(err != nil, "invalid-rule-rejected")
		vAssert(vRowsEq(before, after), "failed-request-changes-nothing")
		return
	}
	vReach("c13-ok")
	vAssert(err == nil, "valid-request-accepted")
	if err != nil {
		return
	}
	// stored row == model (column order within a family: ascending qualifier; families in stored order)
	want := c13Rows(key, model, after)
	vAssert(vRowsEq(want, after), "stored-row-equals-model")
	// response: exactly the newly written cell of each touched column
	var respCells []vCell
	if resp.Row != nil {
		for _, f := range resp.Row.Families {
			for _, c := range f.Columns {
				for _, cell := range c.Cells {
					respCells = append(respCells, vCell{fam: f.Name, qual: c.Qualifier, ts: cell.TimestampMicros, val: cell.Value})
				}
			}
		}
	}
	vAssert(len(respCells) == len(touched), "response-one-cell-per-touched-column")
	if len(respCells) == len(touched) {
		ok := true
		for _, t := range touched {
			found := false
			for _, rc := range respCells {
				if rc.fam == t.fam && string(rc.qual) == string(t.qual) {
					found = true
					ok = vAnd(ok, vAnd(rc.ts == t.cells[0].ts, vBytesEq(rc.val, t.cells[0].val)))
				}
			}
			if !found {
				ok = false
			}
		}
		vAssert(ok, "response-equals-written-cells")
	}
}

// c13Rows renders the model in the order the emulator returns cells: families
// in the order of the actual read (family order is not part of the claim),
// qualifiers ascending, timestamps descending.
func c13Rows(key []byte, model []*c13Col, actual []vRow) []vRow {
	var famOrder []string
	if len(actual) == 1 {
		for _, c := range actual[0].cells {
			seen := false
			for _, f := range famOrder {
				if f == c.fam {
					seen = true
				}
			}
			if !seen {
				famOrder = append(famOrder, c.fam)
			}
		}
	}
	for _, mc := range model {
		seen := false
		for _, f := range famOrder {
			if f == mc.fam {
				seen = true
			}
		}
		if !seen {
			famOrder = append(famOrder, mc.fam)
		}
	}
	row := vRow{key: key}
	for _, f := range famOrder {
		for _, q := range []string{"a", "b"} {
			mc := c13Find(model, f, []byte(q))
			if mc == nil {
				continue
			}
			for _, c := range mc.cells {
				row.cells = append(row.cells, vCell{fam: f, qual: mc.qual, ts: c.ts, val: c.val})
			}
		}
	}
	if len(row.cells) == 0 {
		return nil
	}
	return []vRow{row}
}

var vHarnesses = map[string]func(){
	"H_C13_rmw": H_C13_rmw,
}
