package bttest

// C05 — row filters compute the documented filter semantics.
//
// A row with symbolic cells is read through the real ReadRows with a filter
// whose shape is chosen by vChoice and whose arguments are symbolic; the
// result is compared with a fork-free reference evaluator that tracks an
// "alive" flag (an SMT term) per cell.

import (
	"cloud.google.com/go/bigtable"
	btpb "cloud.google.com/go/bigtable/apiv2/bigtablepb"
	"google.golang.org/grpc/codes"
)

// fCell is one cell of the reference evaluator, in row order.
type fCell struct {
	fam   string
	col   int // index of (family, qualifier) in row order
	qual  []byte
	ts    int64
	val   []byte
	label string
	alive bool // may be symbolic
	src   int  // index of the stored cell this derives from
	strip bool
}

// fFilter pairs the protobuf filter with its reference semantics.
type fFilter struct {
	pb *btpb.RowFilter
	// ev maps the input cells to output cells. invalid: the filter must be rejected.
	// lazy: validity is only established when the leaf is evaluated on a cell.
	ev     func(in []fCell) (out []fCell, invalid bool)
	sample bool // row-sample: whole row or nothing
	dup    bool // may emit duplicates (interleave): per-column order is non-strict
	rowLvl bool // validity is established even on a row without cells (row-level filter)
}

func fAny(cs []fCell) bool {
	any := false
	for _, c := range cs {
		any = vOr(any, c.alive)
	}
	return any
}

func fClone(cs []fCell) []fCell { return append([]fCell{}, cs...) }

// fRank(i) = number of alive cells before i among cells selected by same(i,j).
func fRankInColumn(cs []fCell, i int) int64 {
	var n int64
	for j := 0; j < i; j++ {
		if cs[j].col == cs[i].col {
			n += vIteInt64(cs[j].alive, 1, 0)
		}
	}
	return n
}
func fRankInRow(cs []fCell, i int) int64 {
	var n int64
	for j := 0; j < i; j++ {
		n += vIteInt64(cs[j].alive, 1, 0)
	}
	return n
}

// perCell builds a filter that keeps a cell iff keep(cell).
func perCell(pb *btpb.RowFilter, invalid bool, keep func(c fCell) bool) fFilter {
	return fFilter{pb: pb, ev: func(in []fCell) ([]fCell, bool) {
		out := fClone(in)
		for i := range out {
			out[i].alive = vAnd(out[i].alive, keep(out[i]))
		}
		return out, invalid
	}}
}

// c05Bound is one end of a byte range: 0 unset, 1 open, 2 closed.
type c05Bound struct {
	kind int
	b    []byte
}

func c05ByteBound(name string) c05Bound {
	k := vChoice(name+".kind", 0, 2)
	if k == 0 {
		return c05Bound{}
	}
	return c05Bound{kind: k, b: vNondetBytes(name, vChoice(name+".len", vBound("min-bound-len", 1, 0), 1))}
}

func c05InRange(x []byte, lo, hi c05Bound) bool {
	ok := true
	switch lo.kind {
	case 1:
		ok = vAnd(ok, vBytesCmp(x, lo.b) > 0)
	case 2:
		ok = vAnd(ok, vBytesCmp(x, lo.b) >= 0)
	}
	switch hi.kind {
	case 1:
		ok = vAnd(ok, vBytesCmp(x, hi.b) < 0)
	case 2:
		ok = vAnd(ok, vBytesCmp(x, hi.b) <= 0)
	}
	return ok
}

const c05NumLeaves = 12

// c05Leaf builds leaf filter number k with symbolic arguments.
func c05Leaf(k int) fFilter {
	switch k {
	case 0: // pass_all
		flag := vNondetBool("passall.flag")
		f := perCell(&btpb.RowFilter{Filter: &btpb.RowFilter_PassAllFilter{PassAllFilter: flag}}, vNot(flag), func(c fCell) bool { return true })
		f.rowLvl = true
		return f
	case 1: // block_all
		flag := vNondetBool("blockall.flag")
		f := perCell(&btpb.RowFilter{Filter: &btpb.RowFilter_BlockAllFilter{BlockAllFilter: flag}}, vNot(flag), func(c fCell) bool { return false })
		f.rowLvl = true
		return f
	case 2: // timestamp range [start,end), 0 = unbounded end
		st, en := vNondetInt64("tsr.start"), vNondetInt64("tsr.end")
		invalid := vOr(st%1000 != 0, en%1000 != 0)
		return perCell(&btpb.RowFilter{Filter: &btpb.RowFilter_TimestampRangeFilter{TimestampRangeFilter: &btpb.TimestampRange{StartTimestampMicros: st, EndTimestampMicros: en}}},
			invalid, func(c fCell) bool { return vAnd(c.ts >= st, vOr(en == 0, c.ts < en)) })
	case 3: // value range
		lo, hi := c05ByteBound("vr.start"), c05ByteBound("vr.end")
		vr := &btpb.ValueRange{}
		switch lo.kind {
		case 1:
			vr.StartValue = &btpb.ValueRange_StartValueOpen{StartValueOpen: lo.b}
		case 2:
			vr.StartValue = &btpb.ValueRange_StartValueClosed{StartValueClosed: lo.b}
		}
		switch hi.kind {
		case 1:
			vr.EndValue = &btpb.ValueRange_EndValueOpen{EndValueOpen: hi.b}
		case 2:
			vr.EndValue = &btpb.ValueRange_EndValueClosed{EndValueClosed: hi.b}
		}
		return perCell(&btpb.RowFilter{Filter: &btpb.RowFilter_ValueRangeFilter{ValueRangeFilter: vr}}, false,
			func(c fCell) bool { return c05InRange(c.val, lo, hi) })
	case 4: // column range within a family
		fam := []string{"f", "g", "nosuch"}[vChoice("cr.fam", 0, 2)]
		lo, hi := c05ByteBound("cr.start"), c05ByteBound("cr.end")
		cr := &btpb.ColumnRange{FamilyName: fam}
		switch lo.kind {
		case 1:
			cr.StartQualifier = &btpb.ColumnRange_StartQualifierOpen{StartQualifierOpen: lo.b}
		case 2:
			cr.StartQualifier = &btpb.ColumnRange_StartQualifierClosed{StartQualifierClosed: lo.b}
		}
		switch hi.kind {
		case 1:
			cr.EndQualifier = &btpb.ColumnRange_EndQualifierOpen{EndQualifierOpen: hi.b}
		case 2:
			cr.EndQualifier = &btpb.ColumnRange_EndQualifierClosed{EndQualifierClosed: hi.b}
		}
		return perCell(&btpb.RowFilter{Filter: &btpb.RowFilter_ColumnRangeFilter{ColumnRangeFilter: cr}}, false,
			func(c fCell) bool {
				if c.fam != fam {
					return false
				}
				return c05InRange(c.qual, lo, hi)
			})
	case 5: // cells per column limit
		n := vNondetInt32("cpcl.n")
		return fFilter{pb: &btpb.RowFilter{Filter: &btpb.RowFilter_CellsPerColumnLimitFilter{CellsPerColumnLimitFilter: n}}, rowLvl: true,
			ev: func(in []fCell) ([]fCell, bool) {
				out := fClone(in)
				for i := range out {
					out[i].alive = vAnd(in[i].alive, fRankInColumn(in, i) < int64(n))
				}
				return out, n < 0
			}}
	case 6: // cells per row limit
		n := vNondetInt32("cprl.n")
		return fFilter{pb: &btpb.RowFilter{Filter: &btpb.RowFilter_CellsPerRowLimitFilter{CellsPerRowLimitFilter: n}}, rowLvl: true,
			ev: func(in []fCell) ([]fCell, bool) {
				out := fClone(in)
				for i := range out {
					out[i].alive = vAnd(in[i].alive, fRankInRow(in, i) < int64(n))
				}
				return out, n < 0
			}}
	case 7: // cells per row offset
		n := vNondetInt32("cpro.n")
		return fFilter{pb: &btpb.RowFilter{Filter: &btpb.RowFilter_CellsPerRowOffsetFilter{CellsPerRowOffsetFilter: n}}, rowLvl: true,
			ev: func(in []fCell) ([]fCell, bool) {
				out := fClone(in)
				for i := range out {
					out[i].alive = vAnd(in[i].alive, fRankInRow(in, i) >= int64(n))
				}
				return out, n < 0
			}}
	case 8: // strip value
		return fFilter{pb: &btpb.RowFilter{Filter: &btpb.RowFilter_StripValueTransformer{StripValueTransformer: true}},
			ev: func(in []fCell) ([]fCell, bool) {
				out := fClone(in)
				for i := range out {
					out[i].val = nil
					out[i].strip = true
					out[i].label = ""
				}
				return out, false
			}}
	case 9: // apply label
		return fFilter{pb: &btpb.RowFilter{Filter: &btpb.RowFilter_ApplyLabelTransformer{ApplyLabelTransformer: "lbl"}},
			ev: func(in []fCell) ([]fCell, bool) {
				out := fClone(in)
				for i := range out {
					out[i].label = "lbl"
				}
				return out, false
			}}
	case 10: // family name regex (concrete corpus; matching is native)
		pat := []string{"f", "g|f", "[", "F"}[vChoice("fre.pat", 0, 3)]
		return perCell(&btpb.RowFilter{Filter: &btpb.RowFilter_FamilyNameRegexFilter{FamilyNameRegexFilter: pat}}, pat == "[",
			func(c fCell) bool {
				switch pat {
				case "f":
					return c.fam == "f"
				case "g|f":
					return true
				}
				return false
			})
	case 11: // row sample
		p := []float64{0.5, 0.0, 1.0, -0.5, 1.5}[vChoice("sample.p", 0, 4)]
		f := perCell(&btpb.RowFilter{Filter: &btpb.RowFilter_RowSampleFilter{RowSampleFilter: p}}, p <= 0.0 || p >= 1.0,
			func(c fCell) bool { return true })
		f.sample = true
		return f
	}
	// 12: column qualifier regex matching everything / nothing (bytewise whole-field match)
	pat := []string{`\C*`, `\C`, ``}[vChoice("qre.pat", 0, 2)]
	return perCell(&btpb.RowFilter{Filter: &btpb.RowFilter_ColumnQualifierRegexFilter{ColumnQualifierRegexFilter: []byte(pat)}}, false,
		func(c fCell) bool {
			switch pat {
			case `\C*`:
				return true
			case `\C`:
				return len(c.qual) == 1
			}
			return len(c.qual) == 0
		})
}

// c05Row builds the stored row and its cells in row order.
func c05Row(s *server, key []byte) []fCell { return c05RowShaped(s, key, false) }

// c05RowShaped: with wide, both families are populated (f:q0 1..2 versions, f:q1 0..1, g:q0 1..2,
// g:q1 0..1), so that a position inside a multi-version column has later families behind it.
func c05RowShaped(s *server, key []byte, wide bool) []fCell {
	quals := c01Keys("qual", 2, 1)
	var cells []fCell
	row := &btpb.Row{Key: key}
	col := 0
	full := vBound("row-full", 0, 1)
	for _, fname := range []string{"f", "g"} {
		fam := &btpb.Family{Name: fname}
		for q := range quals {
			max := 1
			if fname == "f" && q == 0 {
				max = 2
			}
			if fname == "g" && (q == 1 || full == 0) {
				max = 0
			}
			n := 0
			if wide {
				if q == 0 {
					n = vChoice("row.n", 1, 2)
				} else {
					n = vChoice("row.n", 0, 1)
				}
			} else if max > 0 {
				n = vChoice("row.n", 0, max)
			}
			if n == 0 {
				continue
			}
			c := &btpb.Column{Qualifier: quals[q]}
			for i := 0; i < n; i++ {
				ts := vNondetInt64("row.ts")
				vAssume(vValidTS(ts))
				if i > 0 {
					vAssume(ts < c.Cells[i-1].TimestampMicros)
				}
				val := vNondetBytes("row.val", 1)
				c.Cells = append(c.Cells, &btpb.Cell{TimestampMicros: ts, Value: val})
				cells = append(cells, fCell{fam: fname, col: col, qual: quals[q], ts: ts, val: val, alive: true, src: len(cells)})
			}
			fam.Columns = append(fam.Columns, c)
			col++
		}
		if len(fam.Columns) > 0 {
			row.Families = append(row.Families, fam)
		}
	}
	if len(row.Families) > 0 {
		s.tables[vTable].rows.ReplaceOrInsert(row)
	}
	return cells
}

// c05Check reads the row through the real ReadRows with filter f and compares.
func c05Check(s *server, key []byte, f fFilter, in []fCell, tag string) {
	st := &vReadStream{}
	err := s.ReadRows(&btpb.ReadRowsRequest{TableName: vTable, Filter: f.pb}, st)
	want, invalid := f.ev(in)
	if len(in) == 0 {
		// no stored row: nothing is evaluated; validity is not established lazily
		vAssert(len(st.msgs) == 0, tag+":empty-table-empty-result")
		return
	}
	vAssert((err != nil) == invalid, tag+":error-iff-invalid-argument")
	if err != nil {
		vAssert(vCodeOf(err) == codes.InvalidArgument, tag+":error-code-invalid-argument")
		vReach("c05-invalid")
		return
	}
	vReach("c05-valid")
	rows, ok := vDecode(st.msgs)
	vAssert(ok, tag+":stream-wellformed")
	if !ok {
		return
	}
	c05Compare(rows, key, want, f, tag)
}

func c05Compare(rows []vRow, key []byte, want []fCell, f fFilter, tag string) {
	any := fAny(want)
	if f.sample {
		// whole row or nothing, for every value of the draw
		if len(rows) == 0 {
			return
		}
	} else {
		vAssert((len(rows) == 1) == any, tag+":row-omitted-iff-no-cell-survives")
	}
	if len(rows) == 0 {
		return
	}
	vAssert(len(rows) == 1, tag+":single-row")
	got := rows[0].cells
	vAssert(vBytesEq(rows[0].key, key), tag+":row-key")
	// count
	var nWant int64
	for _, w := range want {
		nWant += vIteInt64(w.alive, 1, 0)
	}
	vAssert(nWant == int64(len(got)), tag+":cell-count")
	// every expected variant appears with its multiplicity
	okAll := true
	for i, w := range want {
		// multiplicity of this (src, variant) among expected cells, counted once at its first entry
		first := true
		for j := 0; j < i; j++ {
			if want[j].src == w.src && want[j].strip == w.strip && want[j].label == w.label {
				first = false
			}
		}
		if !first {
			continue
		}
		var mult, seen int64
		for _, w2 := range want {
			if w2.src == w.src && w2.strip == w.strip && w2.label == w.label {
				mult += vIteInt64(w2.alive, 1, 0)
			}
		}
		for _, g := range got {
			if g.fam != w.fam || len(g.val) != len(w.val) {
				continue
			}
			lbl := ""
			if len(g.labels) == 1 {
				lbl = g.labels[0]
			}
			if lbl != w.label || len(g.labels) > 1 {
				continue
			}
			seen += vIteInt64(vAnd(vBytesEq(g.qual, w.qual), vAnd(g.ts == w.ts, vBytesEq(g.val, w.val))), 1, 0)
		}
		okAll = vAnd(okAll, mult == seen)
	}
	vAssert(okAll, tag+":cells-equal-reference")
	// order: family blocks, qualifiers ascending, timestamps descending (non-strict with duplicates)
	ord := true
	var seenFams []string
	for i := range got {
		if i > 0 && got[i].fam == got[i-1].fam {
			c := vBytesCmp(got[i-1].qual, got[i].qual)
			if f.dup {
				ord = vAnd(ord, vOr(c < 0, vAnd(c == 0, got[i-1].ts >= got[i].ts)))
			} else {
				ord = vAnd(ord, vOr(c < 0, vAnd(c == 0, got[i-1].ts > got[i].ts)))
			}
			continue
		}
		for _, sf := range seenFams {
			if sf == got[i].fam {
				vAssert(false, tag+":family-once")
			}
		}
		seenFams = append(seenFams, got[i].fam)
	}
	vAssert(ord, tag+":order")
}

func c05Server() (*server, []byte) {
	eng := vChoice("engine", 0, vBound("engines", 0, 1))
	s := vNewServer(eng, func() bigtable.Timestamp { return 0 })
	vCreateTable(s, "f", "g")
	return s, []byte("r")
}

// H_C05_leaf: every leaf filter over its symbolic arguments.
func H_C05_leaf() {
	s, key := c05Server()
	cells := c05Row(s, key)
	f := c05Leaf(vChoice("leaf", 0, c05NumLeaves-1))
	c05Check(s, key, f, cells, "leaf")
}

// H_C05_families: the position-counting leaves (per-column limit, per-row limit, per-row offset)
// and the column range over a row that spans both families.
func H_C05_families() {
	s, key := c05Server()
	cells := c05RowShaped(s, key, true)
	f := c05Leaf([]int{4, 5, 6, 7}[vChoice("leaf", 0, 3)])
	c05Check(s, key, f, cells, "families")
}

// c05Basis is the leaf basis used in compositions (quick: a 6-leaf basis).
func c05BasisLeaf(name string) fFilter {
	if vBound("full-basis", 0, 1) == 1 {
		return c05Leaf(vChoice(name, 0, c05NumLeaves-1))
	}
	basis := []int{0, 1, 2, 5, 7, 8, 9}
	return c05Leaf(basis[vChoice(name, 0, len(basis)-1)])
}

// H_C05_chain: chain(A, B) = B applied to the output of A.
func H_C05_chain() {
	s, key := c05Server()
	cells := c05Row(s, key)
	a, b := c05BasisLeaf("chain.a"), c05BasisLeaf("chain.b")
	var subs []*btpb.RowFilter
	n := vChoice("chain.n", 1, 2)
	subs = append(subs, a.pb)
	if n == 2 {
		subs = append(subs, b.pb)
	}
	f := fFilter{pb: &btpb.RowFilter{Filter: &btpb.RowFilter_Chain_{Chain: &btpb.RowFilter_Chain{Filters: subs}}}, sample: a.sample || b.sample}
	if a.sample || b.sample {
		return // sample inside compositions: outside the bound (the draw is not visible to the reference)
	}
	f.ev = func(in []fCell) ([]fCell, bool) {
		if n < 2 {
			return in, true // fewer than two sub-filters
		}
		mid, inv1 := a.ev(in)
		out, inv2 := b.ev(mid)
		// the second stage is evaluated only when the first yields a cell; its
		// validity is asserted only then (see DESIGN 4.x, lazy validation)
		return out, vOr(inv1, vAnd(fAny(mid), inv2))
	}
	if n == 2 {
		// when the first stage yields nothing, whether an invalid second stage is
		// reported is unspecified: skip those paths
		mid, inv1 := a.ev(cells)
		_, inv2 := b.ev(mid)
		vAssume(vOr(inv1, vOr(fAny(mid), vNot(inv2))))
	}
	c05Check(s, key, f, cells, "chain")
}

// H_C05_interleave: interleave(A, B) = union of the branch outputs, duplicates kept.
func H_C05_interleave() {
	s, key := c05Server()
	cells := c05Row(s, key)
	a, b := c05BasisLeaf("il.a"), c05BasisLeaf("il.b")
	if a.sample || b.sample {
		return
	}
	n := vChoice("il.n", 1, 2)
	subs := []*btpb.RowFilter{a.pb}
	if n == 2 {
		subs = append(subs, b.pb)
	}
	f := fFilter{pb: &btpb.RowFilter{Filter: &btpb.RowFilter_Interleave_{Interleave: &btpb.RowFilter_Interleave{Filters: subs}}}, dup: true}
	f.ev = func(in []fCell) ([]fCell, bool) {
		if n < 2 {
			return in, true
		}
		o1, inv1 := a.ev(in)
		o2, inv2 := b.ev(in)
		return append(fClone(o1), o2...), vOr(inv1, inv2)
	}
	c05Check(s, key, f, cells, "interleave")
}

// c05Condition builds condition(p ? t : e); an absent branch yields no cells.
func c05Condition(p, t fFilter, haveT bool, e fFilter, haveE bool) fFilter {
	c := &btpb.RowFilter_Condition{PredicateFilter: p.pb}
	if haveT {
		c.TrueFilter = t.pb
	}
	if haveE {
		c.FalseFilter = e.pb
	}
	f := fFilter{pb: &btpb.RowFilter{Filter: &btpb.RowFilter_Condition_{Condition: c}}}
	f.ev = func(in []fCell) ([]fCell, bool) {
		po, pinv := p.ev(in)
		matched := fAny(po)
		out := fClone(in)
		for i := range out {
			out[i].alive = false
		}
		var to, eo []fCell
		tinv, einv := false, false
		if haveT {
			to, tinv = t.ev(in)
		}
		if haveE {
			eo, einv = e.ev(in)
		}
		// result = matched ? T(in) : F(in); variants (strip/label) come from the taken branch
		var res []fCell
		for i := range in {
			if haveT {
				c := to[i]
				c.alive = vAnd(matched, c.alive)
				res = append(res, c)
			}
			if haveE {
				c := eo[i]
				c.alive = vAnd(vNot(matched), c.alive)
				res = append(res, c)
			}
		}
		if !haveT && !haveE {
			res = out
		}
		return res, vOr(pinv, vOr(vAnd(matched, tinv), vAnd(vNot(matched), einv)))
	}
	return f
}

// H_C05_condition: condition(P, T, F) picks a branch by whether P yields any cell.
func H_C05_condition() {
	s, key := c05Server()
	cells := c05Row(s, key)
	p := c05BasisLeaf("cond.p")
	if p.sample {
		return
	}
	// branches: absent, pass_all, or a basis leaf
	branch := func(name string) (fFilter, bool) {
		switch vChoice(name+".kind", 0, 2) {
		case 0:
			return fFilter{}, false
		case 1:
			return c05Leaf(8), true // strip value: visible in the output
		}
		l := c05BasisLeaf(name)
		return l, true
	}
	t, haveT := branch("cond.t")
	e, haveE := branch("cond.f")
	if t.sample || e.sample {
		return
	}
	f := c05Condition(p, t, haveT, e, haveE)
	c05Check(s, key, f, cells, "condition")
}

func init() {
	vHarnesses["H_C05_leaf"] = H_C05_leaf
	vHarnesses["H_C05_families"] = H_C05_families
	vHarnesses["H_C05_chain"] = H_C05_chain
	vHarnesses["H_C05_interleave"] = H_C05_interleave
	vHarnesses["H_C05_condition"] = H_C05_condition
}

// ---- regex leaves: whole-field bytewise matching on subjects over a small alphabet ----

// c05Alpha returns n symbolic bytes over {'a','b','\n',0xff}.
func c05Alpha(name string, n int) []byte {
	bs := vNondetBytes(name, n)
	for _, b := range bs {
		vAssume(vOr(vOr(b == 'a', b == 'b'), vOr(b == '\n', b == 0xff)))
	}
	return bs
}

// c05RefMatch is a hand-written reference for the pattern corpus (RE2 semantics on bytes,
// anchored at both ends: the filter must match the whole field).
func c05RefMatch(pat int, s []byte) bool {
	switch pat {
	case 0: // a
		return len(s) == 1 && s[0] == 'a'
	case 1: // a.   ('.' does not match newline)
		return len(s) == 2 && vAnd(s[0] == 'a', s[1] != '\n')
	case 2: // a\C  (any byte)
		return len(s) == 2 && s[0] == 'a'
	case 3: // .*
		ok := true
		for _, b := range s {
			ok = vAnd(ok, b != '\n')
		}
		return ok
	case 4: // [ab]+
		if len(s) == 0 {
			return false
		}
		ok := true
		for _, b := range s {
			ok = vAnd(ok, vOr(b == 'a', b == 'b'))
		}
		return ok
	case 5: // a|b
		return len(s) == 1 && vOr(s[0] == 'a', s[0] == 'b')
	case 6: // \xff as a raw byte in the pattern
		return len(s) == 1 && s[0] == 0xff
	}
	return false
}

// H_C05_regex_bytes: a pattern that is one raw byte around the ASCII / non-ASCII boundary (the
// escaping of non-UTF-8 pattern bytes) against a one-byte value from {0x7e, 0x7f, 0x80, 0x81, 0xc3, 0xff, 'a'}: the row is returned
// iff the value is exactly that byte.
func H_C05_regex_bytes() {
	s, _ := c05Server()
	val := vNondetBytes("val", 1)
	// (the regex engine runs natively on each concretised subject: a small set of candidate bytes)
	vAssume(vOr(vOr(vOr(val[0] == 0x7e, val[0] == 0x7f), vOr(val[0] == 0x80, val[0] == 0x81)), vOr(vOr(val[0] == 0xc3, val[0] == 0xff), val[0] == 'a')))
	s.tables[vTable].rows.ReplaceOrInsert(&btpb.Row{Key: []byte("r"), Families: []*btpb.Family{{Name: "f", Columns: []*btpb.Column{{Qualifier: []byte("q"),
		Cells: []*btpb.Cell{{TimestampMicros: 1000, Value: val}}}}}}})
	pb := []byte{0x7f, 0x80, 0x81, 0xc3, 0xff}[vChoice("pattern.byte", 0, 4)]
	st := &vReadStream{}
	err := s.ReadRows(&btpb.ReadRowsRequest{TableName: vTable, Filter: &btpb.RowFilter{Filter: &btpb.RowFilter_ValueRegexFilter{ValueRegexFilter: []byte{pb}}}}, st)
	vAssert(err == nil, "regex-bytes:ok")
	rows, ok := vDecode(st.msgs)
	vAssert(ok, "regex-bytes:stream-wellformed")
	vAssert((len(rows) == 1) == (val[0] == pb), "regex-bytes:row-returned-iff-the-value-is-that-byte")
	vReach("c05-regex-bytes")
}

var c05Patterns = []string{"a", "a.", `a\C`, ".*", "[ab]+", "a|b", "\xff", "("}

func H_C05_regex() {
	s, _ := c05Server()
	key := c05Alpha("key", vChoice("key.len", 1, 2))
	qual := c05Alpha("qual", vChoice("qual.len", 0, 2))
	val := c05Alpha("val", vChoice("val.len", 0, 2))
	s.tables[vTable].rows.ReplaceOrInsert(&btpb.Row{Key: key, Families: []*btpb.Family{{Name: "f", Columns: []*btpb.Column{{Qualifier: qual,
		Cells: []*btpb.Cell{{TimestampMicros: 1000, Value: val}}}}}}})
	pat := vChoice("pattern", 0, len(c05Patterns)-1)
	p := []byte(c05Patterns[pat])
	var f *btpb.RowFilter
	var subject []byte
	switch vChoice("field", 0, 2) {
	case 0:
		f = &btpb.RowFilter{Filter: &btpb.RowFilter_RowKeyRegexFilter{RowKeyRegexFilter: p}}
		subject = key
	case 1:
		f = &btpb.RowFilter{Filter: &btpb.RowFilter_ColumnQualifierRegexFilter{ColumnQualifierRegexFilter: p}}
		subject = qual
	case 2:
		f = &btpb.RowFilter{Filter: &btpb.RowFilter_ValueRegexFilter{ValueRegexFilter: p}}
		subject = val
	}
	st := &vReadStream{}
	err := s.ReadRows(&btpb.ReadRowsRequest{TableName: vTable, Filter: f}, st)
	if pat == len(c05Patterns)-1 {
		vAssert(err != nil && vCodeOf(err) == codes.InvalidArgument, "regex:bad-pattern-invalid-argument")
		vReach("c05-regex-bad")
		return
	}
	vAssert(err == nil, "regex:ok")
	rows, ok := vDecode(st.msgs)
	vAssert(ok, "regex:stream-wellformed")
	vAssert((len(rows) == 1) == c05RefMatch(pat, subject), "regex:row-returned-iff-whole-field-matches-bytewise")
	vReach("c05-regex")
}

func init() {
	vHarnesses["H_C05_regex"] = H_C05_regex
	vHarnesses["H_C05_regex_bytes"] = H_C05_regex_bytes
}
