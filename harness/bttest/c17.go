package bttest

// C17 — the choice of storage engine is unobservable to clients.

import (
	"cloud.google.com/go/bigtable"
	btapb "cloud.google.com/go/bigtable/admin/apiv2/adminpb"
	btpb "cloud.google.com/go/bigtable/apiv2/bigtablepb"
)

func c17Row(key []byte, val []byte) *btpb.Row {
	return &btpb.Row{Key: key, Families: []*btpb.Family{{Name: "f", Columns: []*btpb.Column{{Qualifier: []byte("q"),
		Cells: []*btpb.Cell{{TimestampMicros: 1000, Value: val}}}}}}}
}

// H_C17_contract: the documented Rows contract, for each implementation.
func H_C17_contract() {
	eng := vChoice("engine", 0, 1)
	rows := vStorage(eng).Create(&btapb.Table{Name: vTable})
	keys := c01Keys("key", 3, vBound("keylen", 1, 2))
	// insert in a chosen order
	order := [][]int{{0, 1, 2}, {2, 1, 0}, {1, 0, 2}}[vChoice("insert.order", 0, 2)]
	for _, i := range order {
		rows.ReplaceOrInsert(c17Row(keys[i], []byte{byte('a' + i)}))
	}
	present := []bool{true, true, true}
	// optional delete / replace before the scan
	switch vChoice("pre.op", 0, 2) {
	case 1:
		d := vChoice("delete.idx", 0, 2)
		rows.Delete(keys[d])
		present[d] = false
	case 2:
		rows.ReplaceOrInsert(c17Row(keys[1], []byte("z")))
	}
	// Get returns a private copy
	if g := rows.Get(keys[0]); g != nil {
		g.Families = nil
		g2 := rows.Get(keys[0])
		vAssert(g2 != nil && len(g2.Families) == 1, "get-returns-private-copy")
	} else {
		vAssert(!present[0], "get-finds-stored-row")
	}
	probe := vNondetBytes("probe", 1)
	miss := vAnd(vNot(vBytesEq(probe, keys[0])), vAnd(vNot(vBytesEq(probe, keys[1])), vNot(vBytesEq(probe, keys[2]))))
	if miss {
		vAssert(rows.Get(probe) == nil, "get-missing-nil")
	}

	// scan with a callback that stops at a chosen call
	stopAt := vChoice("stop.at", 1, 4)
	var visited [][]byte
	calls := 0
	cb := func(r *btpb.Row) bool {
		calls++
		visited = append(visited, r.Key)
		return calls < stopAt
	}
	var lo, hi []byte
	kind := vChoice("scan.kind", 0, 3)
	switch kind {
	case 0:
		rows.Ascend(cb)
	case 1:
		lo, hi = vNondetBytes("scan.lo", 1), vNondetBytes("scan.hi", 1)
		rows.AscendRange(lo, hi, cb)
	case 2:
		hi = vNondetBytes("scan.hi", 1)
		rows.AscendLessThan(hi, cb)
	case 3:
		lo = vNondetBytes("scan.lo", 1)
		rows.AscendGreaterOrEqual(lo, cb)
	}
	// reference: in-range stored keys in ascending order, up to and including the first false
	var n int64
	okAll := true
	for i := range keys {
		in := present[i]
		if !in {
			continue
		}
		inr := true
		if lo != nil {
			inr = vAnd(inr, vBytesCmp(keys[i], lo) >= 0)
		}
		if hi != nil {
			inr = vAnd(inr, vBytesCmp(keys[i], hi) < 0)
		}
		out := vAnd(inr, n < int64(stopAt))
		for j := range visited {
			okAll = vAnd(okAll, vImplies(vAnd(out, n == int64(j)), vBytesEq(visited[j], keys[i])))
		}
		n += vIteInt64(out, 1, 0)
	}
	vAssert(n == int64(len(visited)), "visited-count: no call after the callback returned false")
	vAssert(okAll, "visited-in-range-keys-in-order")
	rows.Clear()
	cnt := 0
	rows.Ascend(func(*btpb.Row) bool { cnt++; return true })
	vAssert(cnt == 0, "clear-empties")
	vReach("c17-contract")
}

// H_C17_range: AscendRange with bounds and keys of different lengths (a bound that is a prefix or
// an extension of a stored key or of the other bound), for each implementation.
func H_C17_range() {
	eng := vChoice("engine", 0, 1)
	rows := vStorage(eng).Create(&btapb.Table{Name: vTable})
	keys := c01Keys("key", 2, 2)
	for i := range keys {
		rows.ReplaceOrInsert(c17Row(keys[i], []byte{byte('a' + i)}))
	}
	lo := vNondetBytes("scan.lo", vChoice("scan.lo.len", 1, 2))
	hi := vNondetBytes("scan.hi", vChoice("scan.hi.len", 1, 2))
	var visited [][]byte
	rows.AscendRange(lo, hi, func(r *btpb.Row) bool {
		visited = append(visited, r.Key)
		return true
	})
	var n int64
	okAll := true
	for i := range keys {
		in := vAnd(vBytesCmp(keys[i], lo) >= 0, vBytesCmp(keys[i], hi) < 0)
		for j := range visited {
			okAll = vAnd(okAll, vImplies(vAnd(in, n == int64(j)), vBytesEq(visited[j], keys[i])))
		}
		n += vIteInt64(in, 1, 0)
	}
	vAssert(n == int64(len(visited)), "range:visits-exactly-the-keys-in-range")
	vAssert(okAll, "range:in-order")
	vReach("c17-range")
}

// H_C17_diff: the same request program on two servers that differ only in engine.
func H_C17_diff() {
	mk := func(eng int) *server {
		s := vNewServer(eng, func() bigtable.Timestamp { return 0 })
		vCreateTable(s, "f")
		return s
	}
	a, b := mk(vEngLeveldbMem), mk(vEngBtree)
	keys := c01Keys("key", 3, 1)
	vals := [][]byte{vNondetBytes("val", 1), vNondetBytes("val", 1), vNondetBytes("val", 1)}
	for _, s := range []*server{a, b} {
		for i := range keys {
			_, err := s.MutateRow(vCtx(), &btpb.MutateRowRequest{TableName: vTable, RowKey: keys[i], Mutations: []*btpb.Mutation{
				{Mutation: &btpb.Mutation_SetCell_{SetCell: &btpb.Mutation_SetCell{FamilyName: "f", ColumnQualifier: []byte("q"), TimestampMicros: 1000, Value: vals[i]}}}}})
			if err != nil {
				vFatal("setup")
			}
		}
	}
	// a filter that is erroneous only on rows whose value is >= B
	bnd := vNondetBytes("bound", 1)
	bad := &btpb.RowFilter{Filter: &btpb.RowFilter_TimestampRangeFilter{TimestampRangeFilter: &btpb.TimestampRange{StartTimestampMicros: 1}}}
	pass := &btpb.RowFilter{Filter: &btpb.RowFilter_PassAllFilter{PassAllFilter: true}}
	pred := &btpb.RowFilter{Filter: &btpb.RowFilter_ValueRangeFilter{ValueRangeFilter: &btpb.ValueRange{StartValue: &btpb.ValueRange_StartValueClosed{StartValueClosed: bnd}}}}
	var filter *btpb.RowFilter
	switch vChoice("filter", 0, 2) {
	case 1:
		filter = &btpb.RowFilter{Filter: &btpb.RowFilter_Condition_{Condition: &btpb.RowFilter_Condition{PredicateFilter: pred, TrueFilter: bad, FalseFilter: pass}}}
	case 2:
		filter = pred
	}
	limit := int64(vChoice("limit", 0, 2))
	read := func(s *server) ([]vRow, bool, error) {
		st := &vReadStream{}
		err := s.ReadRows(&btpb.ReadRowsRequest{TableName: vTable, Filter: filter, RowsLimit: limit}, st)
		rows, ok := vDecode(st.msgs)
		return rows, ok, err
	}
	ra, oka, ea := read(a)
	rb, okb, eb := read(b)
	vAssert(vCodeOf(ea) == vCodeOf(eb), "same-status-from-both-engines")
	vAssert(oka && okb, "streams-wellformed")
	if ea == nil && eb == nil {
		vAssert(vRowsEq(ra, rb), "same-rows-from-both-engines")
		vReach("c17-diff-ok")
	} else {
		vReach("c17-diff-err")
	}
	// drop the only family and create it again in one request: every row loses all its cells
	if vChoice("recreate-family", 0, 1) == 1 {
		for _, s := range []*server{a, b} {
			_, err := s.ModifyColumnFamilies(vCtx(), &btapb.ModifyColumnFamiliesRequest{Name: vTable, Modifications: []*btapb.ModifyColumnFamiliesRequest_Modification{
				{Id: "f", Mod: &btapb.ModifyColumnFamiliesRequest_Modification_Drop{Drop: true}},
				{Id: "f", Mod: &btapb.ModifyColumnFamiliesRequest_Modification_Create{Create: &btapb.ColumnFamily{}}}}})
			vAssert(err == nil, "modify-ok")
		}
		ra, rb := vReadAll(a), vReadAll(b)
		vAssert(len(ra) == 0 && len(rb) == 0, "dropped-family-data-gone-on-both-engines")
		// rows emptied by the drop: whatever SampleRowKeys makes of them, both engines agree on
		// the final sample (it does not depend on the random draws)
		sa, sb := &vSampleStream{}, &vSampleStream{}
		ea := a.SampleRowKeys(&btpb.SampleRowKeysRequest{TableName: vTable}, sa)
		eb := b.SampleRowKeys(&btpb.SampleRowKeysRequest{TableName: vTable}, sb)
		vAssert(vCodeOf(ea) == vCodeOf(eb), "sample:same-status-from-both-engines")
		vAssert((len(sa.msgs) == 0) == (len(sb.msgs) == 0), "sample:both-or-neither-engine-reports-samples")
		if len(sa.msgs) > 0 && len(sb.msgs) > 0 {
			la, lb := sa.msgs[len(sa.msgs)-1], sb.msgs[len(sb.msgs)-1]
			vAssert(len(la.RowKey) == len(lb.RowKey) && vBytesEq(la.RowKey, lb.RowKey), "sample:same-final-sample-from-both-engines")
		}
		vReach("c17-recreate")
	}
	// then a DropRowRange by prefix and a final read
	pfx := vNondetBytes("prefix", 1)
	for _, s := range []*server{a, b} {
		_, err := s.DropRowRange(vCtx(), &btapb.DropRowRangeRequest{Name: vTable, Target: &btapb.DropRowRangeRequest_RowKeyPrefix{RowKeyPrefix: pfx}})
		vAssert(err == nil, "drop-ok")
	}
	vAssert(vRowsEq(vReadAll(a), vReadAll(b)), "same-rows-after-drop")
}

func init() {
	vHarnesses["H_C17_contract"] = H_C17_contract
	vHarnesses["H_C17_diff"] = H_C17_diff
	vHarnesses["H_C17_range"] = H_C17_range
}
