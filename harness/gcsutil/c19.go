package gcsutil

// C19 — lock map: mutual exclusion, cancellation safety, no deadlock, no leak.
// The real TransientLockMap / countedLock code runs under every interleaving
// (schedule points before each sync operation) within the stated bounds.

import (
	"context"
	"time"
)

type vTestCtx struct{ done chan struct{} }

func (c *vTestCtx) Deadline() (time.Time, bool) { return time.Time{}, false }
func (c *vTestCtx) Done() <-chan struct{}       { return c.done }
func (c *vTestCtx) Err() error {
	select {
	case <-c.done:
		return context.Canceled
	default:
		return nil
	}
}
func (c *vTestCtx) Value(any) any { return nil }

// c19Key returns a key that is "a" or "b", decided by the solver.
func c19Key(name string) string {
	b := vNondetByte(name)
	vAssume(vOr(b == 'a', b == 'b'))
	return string([]byte{b})
}

type c19Mon struct {
	inside   [4]bool
	key      [4]string
	lenient  bool // record an exclusion violation instead of asserting at once
	violated bool
}

func (m *c19Mon) enter(g int, key string) {
	vRaceOff()
	for o := range m.inside {
		if o != g && m.inside[o] {
			if m.lenient {
				if m.key[o] == key {
					m.violated = true
				}
			} else {
				vAssert(m.key[o] != key, "mutual-exclusion: two holders of one key")
			}
		}
	}
	m.inside[g], m.key[g] = true, key
	vRaceOn()
}
func (m *c19Mon) exit(g int) {
	vRaceOff()
	m.inside[g] = false
	vRaceOn()
}

func c19Run(n, rounds int, cancel bool) {
	useRun := vChoice("api", 0, 1) == 1 // Lock/Unlock or Run
	l := NewTransientLockMap()
	mon := &c19Mon{}
	ctxs := make([]*vTestCtx, n)
	keys := make([]string, n)
	for g := 0; g < n; g++ {
		ctxs[g] = &vTestCtx{done: make(chan struct{})}
		keys[g] = c19Key("key")
	}
	for g := 0; g < n; g++ {
		g := g
		vGo(func() {
			for r := 0; r < rounds; r++ {
				if useRun {
					err := l.Run(ctxs[g], keys[g], func(context.Context) error {
						mon.enter(g, keys[g])
						vYield()
						mon.exit(g)
						return nil
					})
					if err != nil {
						vAssert(ctxs[g].Err() != nil, "run-fails-only-when-context-ended")
						vReach("c19-cancelled")
					}
					continue
				}
				if l.Lock(ctxs[g], keys[g]) {
					mon.enter(g, keys[g])
					vYield()
					mon.exit(g)
					l.Unlock(keys[g])
				} else {
					vAssert(ctxs[g].Err() != nil, "lock-returns-false-only-when-context-ended")
					vReach("c19-cancelled")
				}
			}
		})
	}
	if cancel {
		vGo(func() { close(ctxs[0].done) })
	}
	vJoin()
	vRaceOff()
	vAssert(len(l.locks) == 0, "no-leak: map empty once nobody holds or awaits a lock")
	vReach("c19-quiescent")
}

// H_C19_two: 2 goroutines x 1 round (thorough 2), keys decided by the solver, optional cancellation of goroutine 0; all interleavings.
func H_C19_two() {
	c19Run(2, vBound("rounds", 1, 2), vChoice("cancel", 0, 1) == 1)
}

// H_C19_three: 3 goroutines x 1 round under a preemption bound (set by the check's options).
func H_C19_three() {
	c19Run(3, vBound("rounds3", 1, 1), vChoice("cancel", 0, 1) == 1)
}

// H_C19_badunlock: unlocking a key that is not held panics and leaves the map usable.
func H_C19_badunlock() {
	l := NewTransientLockMap()
	ctx := &vTestCtx{done: make(chan struct{})}
	held := vChoice("other-key-held", 0, 1) == 1
	if held {
		vAssert(l.Lock(ctx, "b"), "lock-b")
	}
	panicked := false
	func() {
		defer func() {
			if recover() != nil {
				panicked = true
			}
		}()
		l.Unlock("a")
	}()
	vAssert(panicked, "unlock-of-unheld-key-panics")
	// the map is still usable
	vAssert(l.Lock(ctx, "a"), "lock-after-bad-unlock")
	l.Unlock("a")
	if held {
		l.Unlock("b")
	}
	vAssert(len(l.locks) == 0, "map-empty")
	// double unlock
	vAssert(l.Lock(ctx, "a"), "relock")
	l.Unlock("a")
	panicked = false
	func() {
		defer func() {
			if recover() != nil {
				panicked = true
			}
		}()
		l.Unlock("a")
	}()
	vAssert(panicked, "double-unlock-panics")
	vAssert(len(l.locks) == 0, "map-empty-after-double-unlock")
	vReach("c19-badunlock")
}

// H_C19_cancelled: a context that is already done never acquires, and blocks nobody.
func H_C19_cancelled() {
	l := NewTransientLockMap()
	dead := &vTestCtx{done: make(chan struct{})}
	close(dead.done)
	live := &vTestCtx{done: make(chan struct{})}
	vAssert(!l.Lock(dead, "a"), "done-context-does-not-acquire")
	vAssert(len(l.locks) == 0, "nothing-retained")
	vAssert(l.Lock(live, "a"), "later-caller-acquires")
	vAssert(!l.Lock(dead, "a"), "done-context-does-not-acquire-held-key")
	l.Unlock("a")
	vAssert(len(l.locks) == 0, "map-empty")
	err := l.Run(dead, "a", func(context.Context) error { vAssert(false, "callback-must-not-run"); return nil })
	vAssert(err != nil, "run-reports-context-error")
	vReach("c19-cancelled-ctx")
}

// H_C19_badunlock_race: an Unlock of a key nobody holds, racing with lockers of that key, panics
// and leaves the map consistent: mutual exclusion still holds and nothing leaks. Schedules in which
// the stray Unlock happens while a goroutine really holds the key release that goroutine's lock
// (the map cannot tell callers apart): that is misuse outside the property and those paths are dropped.
func H_C19_badunlock_race() {
	l := NewTransientLockMap()
	mon := &c19Mon{lenient: true}
	ctxs := []*vTestCtx{{done: make(chan struct{})}, {done: make(chan struct{})}}
	var holderPanicked [2]bool
	for g := 0; g < 2; g++ {
		g := g
		vGo(func() {
			if l.Lock(ctxs[g], "a") {
				mon.enter(g, "a")
				vYield()
				mon.exit(g)
				func() {
					defer func() {
						if recover() != nil {
							holderPanicked[g] = true
						}
					}()
					l.Unlock("a")
				}()
			}
		})
	}
	strayPanicked := false
	vGo(func() {
		defer func() {
			if recover() != nil {
				strayPanicked = true
			}
		}()
		l.Unlock("a")
	})
	vJoin()
	vRaceOff()
	vAssume(strayPanicked) // otherwise the stray Unlock released a lock that was really held
	vReach("c19-badunlock-panicked")
	vAssert(!holderPanicked[0] && !holderPanicked[1], "a-rejected-unlock-does-not-disturb-real-holders")
	vAssert(!mon.violated, "mutual-exclusion-holds-after-a-rejected-unlock")
	vAssert(len(l.locks) == 0, "no-leak-after-a-rejected-unlock")
	vReach("c19-badunlock-race")
}

var vHarnesses = map[string]func(){
	"H_C19_badunlock_race": H_C19_badunlock_race,
	"H_C19_two":            H_C19_two,
	"H_C19_three":          H_C19_three,
	"H_C19_badunlock":      H_C19_badunlock,
	"H_C19_cancelled":      H_C19_cancelled,
}
