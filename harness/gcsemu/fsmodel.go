package gcsemu

// A model of the file system behind the file-backed store (filestore.go): a tree of
// directories and regular files with modification times, behind os.MkdirAll / Stat /
// ReadFile / WriteFile / Chtimes / Remove / RemoveAll / ReadDir and filepath.Walk.
// Error cases follow POSIX as the os package reports them: a missing path is
// os.ErrNotExist; a path below a regular file, writing onto a directory, reading a
// directory and removing a non-empty directory are errors that are NOT "not exist".
// The metadata side-car files are written with json.MarshalIndent and read back with
// a json.Decoder over a bytes.Reader: modelled as a handle to a copy of the object.

import (
	"bytes"
	"io/fs"
	"os"
	"sort"
	"strings"
	"sync"
	"time"

	"google.golang.org/api/storage/v1"
)

type vNode struct {
	dir   bool
	data  []byte
	mtime time.Time
}

var (
	vFS   map[string]*vNode
	vFSMu sync.Mutex // every os call is one atomic step
)

type vFSErr struct{ msg string }

func (e *vFSErr) Error() string { return e.msg }

var (
	vErrNotDir   = &vFSErr{"not a directory"}
	vErrIsDir    = &vFSErr{"is a directory"}
	vErrNotEmpty = &vFSErr{"directory not empty"}
)

type vFileInfo struct {
	name  string
	size  int64
	dir   bool
	mtime time.Time
}

func (i *vFileInfo) Name() string { return i.name }
func (i *vFileInfo) Size() int64  { return i.size }
func (i *vFileInfo) Mode() fs.FileMode {
	if i.dir {
		return fs.ModeDir | 0777
	}
	return 0666
}
func (i *vFileInfo) ModTime() time.Time         { return i.mtime }
func (i *vFileInfo) IsDir() bool                { return i.dir }
func (i *vFileInfo) Sys() any                   { return nil }
func (i *vFileInfo) Type() fs.FileMode          { return i.Mode() & fs.ModeType }
func (i *vFileInfo) Info() (fs.FileInfo, error) { return i, nil }

func vBase(p string) string { return p[strings.LastIndex(p, "/")+1:] }
func vParentDir(p string) string {
	i := strings.LastIndex(p, "/")
	if i <= 0 {
		return "/"
	}
	return p[:i]
}

func vFSInit() {
	if vFS == nil {
		vFS = map[string]*vNode{"/": {dir: true}}
	}
}

// vLookup resolves p: the node, or the error the kernel reports.
func vLookup(p string) (*vNode, error) {
	vFSInit()
	if n, ok := vFS[p]; ok {
		return n, nil
	}
	// a missing path: ENOTDIR if some ancestor is a regular file, else ENOENT
	for q := vParentDir(p); ; q = vParentDir(q) {
		if n, ok := vFS[q]; ok {
			if !n.dir {
				return nil, vErrNotDir
			}
			return nil, os.ErrNotExist
		}
		if q == "/" {
			return nil, os.ErrNotExist
		}
	}
}

func vInfo(p string, n *vNode) *vFileInfo {
	return &vFileInfo{name: vBase(p), size: int64(len(n.data)), dir: n.dir, mtime: n.mtime}
}

func stubFsMkdirAll(path string, perm os.FileMode) error {
	vFSMu.Lock()
	defer vFSMu.Unlock()
	vFSInit()
	var todo []string
	for p := path; p != "/"; p = vParentDir(p) {
		if n, ok := vFS[p]; ok {
			if !n.dir {
				return vErrNotDir
			}
			break
		}
		todo = append(todo, p)
	}
	now := time.Now()
	for i := len(todo) - 1; i >= 0; i-- {
		vFS[todo[i]] = &vNode{dir: true, mtime: now}
	}
	return nil
}

func stubFsStat(name string) (os.FileInfo, error) {
	vFSMu.Lock()
	defer vFSMu.Unlock()
	n, err := vLookup(name)
	if err != nil {
		return nil, err
	}
	return vInfo(name, n), nil
}

func stubFsReadFile(name string) ([]byte, error) {
	vFSMu.Lock()
	defer vFSMu.Unlock()
	n, err := vLookup(name)
	if err != nil {
		return nil, err
	}
	if n.dir {
		return nil, vErrIsDir
	}
	return append([]byte(nil), n.data...), nil
}

func stubFsWriteFile(name string, data []byte, perm os.FileMode) error {
	vFSMu.Lock()
	defer vFSMu.Unlock()
	vFSInit()
	if n, ok := vFS[name]; ok {
		if n.dir {
			return vErrIsDir
		}
		n.data, n.mtime = append([]byte(nil), data...), time.Now()
		return nil
	}
	pn, err := vLookup(vParentDir(name))
	if err != nil {
		return err
	}
	if !pn.dir {
		return vErrNotDir
	}
	vFS[name] = &vNode{data: append([]byte(nil), data...), mtime: time.Now()}
	return nil
}

func stubFsChtimes(name string, atime, mtime time.Time) error {
	vFSMu.Lock()
	defer vFSMu.Unlock()
	n, err := vLookup(name)
	if err != nil {
		return err
	}
	n.mtime = mtime
	return nil
}

func vChildren(dir string) []string {
	var names []string
	pfx := dir + "/"
	if dir == "/" {
		pfx = "/"
	}
	for p := range vFS {
		if p != "/" && strings.HasPrefix(p, pfx) && !strings.Contains(p[len(pfx):], "/") {
			names = append(names, p[len(pfx):])
		}
	}
	sort.Strings(names)
	return names
}

func stubFsRemove(name string) error {
	vFSMu.Lock()
	defer vFSMu.Unlock()
	n, err := vLookup(name)
	if err != nil {
		return err
	}
	if n.dir && len(vChildren(name)) > 0 {
		return vErrNotEmpty
	}
	delete(vFS, name)
	return nil
}

func stubFsRemoveAll(path string) error {
	vFSMu.Lock()
	defer vFSMu.Unlock()
	vFSInit()
	for p := range vFS {
		if p == path || strings.HasPrefix(p, path+"/") {
			delete(vFS, p)
		}
	}
	return nil
}

func stubFsReadDir(name string) ([]os.DirEntry, error) {
	vFSMu.Lock()
	defer vFSMu.Unlock()
	n, err := vLookup(name)
	if err != nil {
		return nil, err
	}
	if !n.dir {
		return nil, vErrNotDir
	}
	var out []os.DirEntry
	for _, c := range vChildren(name) {
		p := name + "/" + c
		out = append(out, vInfo(p, vFS[p]))
	}
	return out, nil
}

// stubFsWalk follows path/filepath.Walk: the root first, then, for a directory, its
// entries in lexical order of their names, each walked recursively; an Lstat error on
// the root is handed to the callback; SkipDir / SkipAll are honoured.
func stubFsWalk(root string, fn func(path string, info os.FileInfo, err error) error) error {
	info, err := stubFsStat(root)
	if err != nil {
		err = fn(root, nil, err)
	} else {
		err = vWalk(root, info, fn)
	}
	if err == fs.SkipDir || err == fs.SkipAll {
		return nil
	}
	return err
}

func vWalk(path string, info os.FileInfo, fn func(path string, info os.FileInfo, err error) error) error {
	if !info.IsDir() {
		return fn(path, info, nil)
	}
	vFSMu.Lock()
	names := vChildren(path)
	vFSMu.Unlock()
	if err := fn(path, info, nil); err != nil {
		return err
	}
	for _, name := range names {
		p := path + "/" + name
		ci, err := stubFsStat(p)
		if err != nil {
			if err := fn(p, ci, err); err != nil && err != fs.SkipDir {
				return err
			}
			continue
		}
		if err := vWalk(p, ci, fn); err != nil {
			if !ci.IsDir() || err != fs.SkipDir {
				return err
			}
		}
	}
	return nil
}

// ---- the side-car metadata files: MarshalIndent / Decoder(bytes.Reader) as a handle ----

var vMetaTab []*storage.Object

func stubMarshalIndent(v interface{}, prefix, indent string) ([]byte, error) {
	o, ok := v.(*storage.Object)
	if !ok || o == nil {
		return []byte("null"), nil
	}
	cp := *o
	cp.ForceSendFields, cp.NullFields = nil, nil
	if o.Metadata != nil {
		cp.Metadata = map[string]string{}
		for k, x := range o.Metadata {
			cp.Metadata[k] = x
		}
		if len(cp.Metadata) == 0 {
			cp.Metadata = nil // omitempty
		}
	}
	vJSONMu.Lock()
	defer vJSONMu.Unlock()
	vMetaTab = append(vMetaTab, &cp)
	idx := len(vMetaTab) - 1
	out := []byte{0xfe, byte(idx >> 8), byte(idx)}
	for i, n := 0, vMetaSize(&cp); i < n; i++ {
		out = append(out, 0xaa) // the encoding grows and shrinks with the content
	}
	return out, nil
}

// vMetaSize: a structural size of the side-car document (populated fields), so that its encoded
// length varies with the content as JSON's does.
func vMetaSize(o *storage.Object) int {
	n := len(o.Metadata)
	for _, f := range []string{o.ContentType, o.ContentEncoding, o.ContentDisposition, o.ContentLanguage, o.CacheControl, o.Md5Hash, o.Crc32c, o.TimeCreated, o.Updated, o.Name, o.Etag} {
		if f != "" {
			n++
		}
	}
	if o.Metageneration != 0 {
		n++
	}
	return n
}

// vDecodeMetaFile decodes a side-car file read back from the model into obj.
func vDecodeMetaFile(r *bytes.Reader, v interface{}) error {
	buf := make([]byte, r.Len())
	r.Read(buf)
	o, ok := v.(*storage.Object)
	if !ok || len(buf) < 3 || buf[0] != 0xfe {
		return vBadJSON{}
	}
	vJSONMu.Lock()
	src := vMetaTab[int(buf[1])<<8|int(buf[2])]
	vJSONMu.Unlock()
	if len(buf) != 3+vMetaSize(src) {
		return vBadJSON{} // a left-over tail of an older, longer document
	}
	*o = *src
	if src.Metadata != nil {
		o.Metadata = map[string]string{}
		for k, x := range src.Metadata {
			o.Metadata[k] = x
		}
	}
	return nil
}

func vFsStubs() map[string]interface{} {
	return map[string]interface{}{
		"os.MkdirAll":                 stubFsMkdirAll,
		"os.Stat":                     stubFsStat,
		"os.Lstat":                    stubFsStat,
		"os.ReadFile":                 stubFsReadFile,
		"os.WriteFile":                stubFsWriteFile,
		"os.Chtimes":                  stubFsChtimes,
		"os.Remove":                   stubFsRemove,
		"os.RemoveAll":                stubFsRemoveAll,
		"os.ReadDir":                  stubFsReadDir,
		"path/filepath.Walk":          stubFsWalk,
		"encoding/json.MarshalIndent": stubMarshalIndent,
	}
}

// vNewEmuOn builds an emulator on the in-memory store (0) or the file store over the model (1).
func vNewEmuOn(kind int) *GcsEmu {
	g := vNewEmu()
	if kind == 1 {
		if !vSymbolic() {
			g.store = vNativeFileStore()
		} else {
			g.store = NewFileStore("/gcs")
		}
	}
	return g
}

// ---- open files: os.OpenFile / Create / Open and the *os.File methods the stores could use ----

type vOpen struct {
	path   string
	off    int
	append bool
	closed bool
}

var vOpenTab map[*os.File]*vOpen

func stubFsOpenFile(name string, flag int, perm os.FileMode) (*os.File, error) {
	vFSMu.Lock()
	defer vFSMu.Unlock()
	vFSInit()
	n, ok := vFS[name]
	if ok {
		if flag&(os.O_CREATE|os.O_EXCL) == os.O_CREATE|os.O_EXCL {
			return nil, os.ErrExist
		}
		if n.dir && flag&(os.O_WRONLY|os.O_RDWR) != 0 {
			return nil, vErrIsDir
		}
	} else {
		if flag&os.O_CREATE == 0 {
			_, err := vLookup(name)
			return nil, err
		}
		pn, err := vLookup(vParentDir(name))
		if err != nil {
			return nil, err
		}
		if !pn.dir {
			return nil, vErrNotDir
		}
		n = &vNode{mtime: time.Now()}
		vFS[name] = n
	}
	if flag&os.O_TRUNC != 0 && !n.dir {
		n.data, n.mtime = nil, time.Now()
	}
	f := new(os.File)
	if vOpenTab == nil {
		vOpenTab = map[*os.File]*vOpen{}
	}
	vOpenTab[f] = &vOpen{path: name, append: flag&os.O_APPEND != 0}
	return f, nil
}

func stubFsCreate(name string) (*os.File, error) {
	return stubFsOpenFile(name, os.O_RDWR|os.O_CREATE|os.O_TRUNC, 0666)
}
func stubFsOpen(name string) (*os.File, error) { return stubFsOpenFile(name, os.O_RDONLY, 0) }

func stubFileWrite(f *os.File, b []byte) (int, error) {
	vFSMu.Lock()
	defer vFSMu.Unlock()
	o := vOpenTab[f]
	if o == nil || o.closed {
		return 0, os.ErrClosed
	}
	n := vFS[o.path]
	if n == nil || n.dir {
		return len(b), nil // unlinked meanwhile: the bytes go to the orphaned inode
	}
	if o.append {
		o.off = len(n.data)
	}
	data := append([]byte(nil), n.data...)
	for len(data) < o.off+len(b) {
		data = append(data, 0)
	}
	copy(data[o.off:], b)
	o.off += len(b)
	n.data, n.mtime = data, time.Now()
	return len(b), nil
}
func stubFileWriteString(f *os.File, s string) (int, error) { return stubFileWrite(f, []byte(s)) }
func stubFileSync(f *os.File) error                         { return nil }
func stubFileClose(f *os.File) error {
	vFSMu.Lock()
	defer vFSMu.Unlock()
	o := vOpenTab[f]
	if o == nil || o.closed {
		return os.ErrClosed
	}
	o.closed = true
	return nil
}
func stubFileTruncate(f *os.File, size int64) error {
	vFSMu.Lock()
	defer vFSMu.Unlock()
	o := vOpenTab[f]
	if o == nil || o.closed {
		return os.ErrClosed
	}
	if n := vFS[o.path]; n != nil && !n.dir {
		data := append([]byte(nil), n.data...)
		for int64(len(data)) < size {
			data = append(data, 0)
		}
		n.data, n.mtime = data[:size], time.Now()
	}
	return nil
}

func vFileStubs() map[string]interface{} {
	return map[string]interface{}{
		"os.OpenFile":            stubFsOpenFile,
		"os.Create":              stubFsCreate,
		"os.Open":                stubFsOpen,
		"(*os.File).Write":       stubFileWrite,
		"(*os.File).WriteString": stubFileWriteString,
		"(*os.File).Sync":        stubFileSync,
		"(*os.File).Close":       stubFileClose,
		"(*os.File).Truncate":    stubFileTruncate,
		"os.Truncate":            stubFsTruncatePath,
	}
}

func stubFsTruncatePath(name string, size int64) error {
	f, err := stubFsOpenFile(name, os.O_WRONLY, 0)
	if err != nil {
		return err
	}
	return stubFileTruncate(f, size)
}

// vRestartOn returns a new emulator on the same storage as g (a new process on the same directory).
func vRestartOn(g *GcsEmu) *GcsEmu {
	n := vNewEmu()
	n.store = NewFileStore(g.store.(*filestore).gcsDir)
	return n
}

// vForeignFile writes a content file straight into the file store's directory, without a side-car.
func vForeignFile(g *GcsEmu, bucket, name string, content []byte) error {
	if !vSymbolic() {
		return vNativeWriteFile(g.store, bucket, name, content)
	}
	return stubFsWriteFile("/gcs/"+bucket+"/"+name, content, 0666)
}
