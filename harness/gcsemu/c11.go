package gcsemu

// C11 — listing is complete, duplicate-free and ordered for any prefix/delimiter/page size.
// Object names, prefix and delimiter are strings of symbolic bytes over a small alphabet.

import (
	"net/http"
	"net/url"
	"strconv"

	"google.golang.org/api/storage/v1"
)

// c11Str returns a string of n symbolic bytes over {'a','b','/'}.
func c11Str(name string, n int) string {
	bs := vNondetBytes(name, n)
	for _, b := range bs {
		vAssume(vOr(b == 'a', vOr(b == 'b', b == '/')))
	}
	return string(bs)
}

func c11HasPrefix(s, p string) bool {
	if len(s) < len(p) {
		return false
	}
	return s[:len(p)] == p
}

// c11Collapse: for a name with the prefix, the collapsed prefix (and whether there is one).
func c11DelimAt(name, prefix, delim string, pos int) bool {
	// delimiter occurs at position pos of name (pos >= len(prefix)) and nowhere earlier after the prefix
	if pos+len(delim) > len(name) {
		return false
	}
	here := name[pos:pos+len(delim)] == delim
	earlier := false
	for q := len(prefix); q < pos; q++ {
		if q+len(delim) <= len(name) {
			earlier = vOr(earlier, name[q:q+len(delim)] == delim)
		}
	}
	return vAnd(here, vNot(earlier))
}

func H_C11_list() {
	g := vNewEmu()
	n := vBound("objects", 3, 4)
	maxLen := vBound("namelen", 2, 3)
	var names []string
	for i := 0; i < n; i++ {
		nm := c11Str("name", vChoice("name.len", 1, maxLen))
		if i > 0 {
			vAssume(names[i-1] < nm) // distinct, ascending (w.l.o.g.: uploads commute)
		}
		names = append(names, nm)
	}
	for _, nm := range names {
		vPut(g, "b", nm, []byte("c"))
	}
	prefix := c11Str("prefix", vChoice("prefix.len", 0, 2))
	delim := ""
	if dl := vChoice("delimiter.len", 0, vBound("delimlen", 1, 2)); dl > 0 {
		delim = c11Str("delimiter", dl)
	}
	c11Run(g, names, prefix, delim, vChoice("maxResults", 1, 3))
	vReach("c11-list")
}

// c11FileUniverse: object names for the file-backed store, in ascending bytewise order. They nest
// directories and include names that differ by characters sorting below '/' ('.' < '/' < '0').
var c11FileUniverse = []string{"a.t", "a/b", "a/b.c", "a/c/e", "a0", "b"}

// H_C11_list_file: the same listing contract on the file-backed store (over the file-system
// model), for every subset of a small universe of names.
func H_C11_list_file() {
	g := vNewEmuOn(1)
	var names []string
	for _, nm := range c11FileUniverse {
		if vChoice("present", 0, 1) == 1 {
			names = append(names, nm)
		}
	}
	if len(names) == 0 {
		g.store.CreateBucket("b")
	}
	for _, nm := range names {
		vPut(g, "b", nm, []byte("c"))
	}
	prefix := []string{"", "a", "a/", "a.", "a/b", "b", "a/c/"}[vChoice("prefix", 0, 6)]
	delim := []string{"", "/", ".", "b"}[vChoice("delimiter", 0, 3)]
	c11Run(g, names, prefix, delim, vChoice("maxResults", 1, 3))
	vReach("c11-list-file")
}

// c11Run pages through a listing of bucket b and compares it with the reference.
func c11Run(g *GcsEmu, names []string, prefix, delim string, maxResults int) {
	n := len(names)
	// follow nextPageToken until it is empty
	var items []string
	var itemObjs []*storage.Object
	var prefixes []string
	token := ""
	pages := 0
	for {
		q := url.Values{"maxResults": []string{strconv.Itoa(maxResults)}}
		if prefix != "" {
			q["prefix"] = []string{prefix}
		}
		if delim != "" {
			q["delimiter"] = []string{delim}
		}
		if token != "" {
			q["pageToken"] = []string{token}
		}
		w := vNewRecorder()
		g.handleGcsListBucket(vCtx(), dontNeedUrls, w, q, "b")
		vAssert(w.code == http.StatusOK, "list-ok")
		var page *storage.Objects
		for _, b := range w.all() {
			if l, ok := b.(*storage.Objects); ok {
				page = l
			}
		}
		if page == nil {
			vAssert(false, "list-body")
			return
		}
		vAssert(len(page.Items)+len(page.Prefixes) <= maxResults, "page-holds-at-most-maxResults-entries")
		for _, it := range page.Items {
			items = append(items, it.Name)
			itemObjs = append(itemObjs, it)
		}
		prefixes = append(prefixes, page.Prefixes...)
		pages++
		token = page.NextPageToken
		if token == "" {
			break
		}
		if pages > n+2 {
			vAssert(false, "pagination-terminates")
			return
		}
	}
	// ---- reference ----
	// expected item i: has prefix and no delimiter after it; expected collapsed prefix: name[:pos+len(delim)]
	var nItems int64
	okItems := true
	for i, nm := range names {
		has := c11HasPrefix(nm, prefix)
		collapsed := false
		if delim != "" {
			for pos := len(prefix); pos+len(delim) <= len(nm); pos++ {
				collapsed = vOr(collapsed, c11DelimAt(nm, prefix, delim, pos))
			}
		}
		isItem := vAnd(has, vNot(collapsed))
		// rank among expected items
		for j := range items {
			okItems = vAnd(okItems, vImplies(vAnd(isItem, nItems == int64(j)), items[j] == nm))
		}
		nItems += vIteInt64(isItem, 1, 0)
		_ = i
	}
	vAssert(nItems == int64(len(items)), "every-matching-object-listed-exactly-once")
	vAssert(okItems, "items-in-ascending-order-equal-reference")
	// collapsed prefixes: each distinct one exactly once, and each corresponds to some object
	okPref := true
	for a := range prefixes {
		for b := a + 1; b < len(prefixes); b++ {
			okPref = vAnd(okPref, prefixes[a] != prefixes[b])
		}
	}
	vAssert(okPref, "each-collapsed-prefix-once")
	if delim != "" {
		for _, nm := range names {
			has := c11HasPrefix(nm, prefix)
			for pos := len(prefix); pos+len(delim) <= len(nm); pos++ {
				want := vAnd(has, c11DelimAt(nm, prefix, delim, pos))
				cp := nm[:pos+len(delim)]
				found := false
				for _, p := range prefixes {
					if len(p) == len(cp) {
						found = vOr(found, p == cp)
					}
				}
				vAssert(vImplies(want, found), "collapsed-prefix-of-every-matching-object-listed")
			}
		}
		// and nothing else
		for _, p := range prefixes {
			just := false
			for _, nm := range names {
				has := c11HasPrefix(nm, prefix)
				for pos := len(prefix); pos+len(delim) <= len(nm); pos++ {
					if pos+len(delim) == len(p) {
						just = vOr(just, vAnd(vAnd(has, c11DelimAt(nm, prefix, delim, pos)), nm[:pos+len(delim)] == p))
					}
				}
			}
			vAssert(just, "no-spurious-prefix")
		}
	} else {
		vAssert(len(prefixes) == 0, "no-prefixes-without-delimiter")
	}
	// each item's metadata equals what a metadata GET returns
	for _, it := range itemObjs {
		w := vNewRecorder()
		g.handleGcsMetadataRequest(dontNeedUrls, w, "b", it.Name)
		o := w.object()
		vAssert(o != nil && vAnd(o.Generation == it.Generation, o.Metageneration == it.Metageneration) && o.Size == it.Size && o.Md5Hash == it.Md5Hash,
			"listed-metadata-equals-metadata-get")
	}
}

// H_C11_errors: missing bucket 404, malformed token or maxResults 400.
func H_C11_errors() {
	g := vNewEmuOn(vChoice("store", 0, 1))
	vPut(g, "b", "x", []byte("c"))
	w := vNewRecorder()
	g.handleGcsListBucket(vCtx(), dontNeedUrls, w, url.Values{}, "nosuch")
	vAssert(w.code == http.StatusNotFound, "missing-bucket-404")
	w = vNewRecorder()
	g.handleGcsListBucket(vCtx(), dontNeedUrls, w, url.Values{"pageToken": []string{"garbage"}}, "b")
	vAssert(w.code == http.StatusBadRequest, "malformed-token-400")
	raw := vNondetBytes("maxResults", vChoice("maxResults.len", 1, 2))
	w = vNewRecorder()
	g.handleGcsListBucket(vCtx(), dontNeedUrls, w, url.Values{"maxResults": []string{string(raw)}}, "b")
	// valid: an optional '+' and digits with value >= 1
	isDigit := func(b byte) bool { return vAnd(b >= '0', b <= '9') }
	valid := false
	if len(raw) == 1 {
		valid = vAnd(isDigit(raw[0]), raw[0] != '0')
	} else {
		twoDigits := vAnd(vAnd(isDigit(raw[0]), isDigit(raw[1])), vOr(raw[0] != '0', raw[1] != '0'))
		plusDigit := vAnd(raw[0] == '+', vAnd(isDigit(raw[1]), raw[1] != '0'))
		valid = vOr(twoDigits, plusDigit)
	}
	vAssert((w.code == http.StatusOK) == valid, "maxResults-valid-iff-positive-integer")
	if w.code != http.StatusOK {
		vAssert(w.code == http.StatusBadRequest, "malformed-maxResults-400")
	}
	vReach("c11-errors")
}

func init() {
	vHarnesses["H_C11_list"] = H_C11_list
	vHarnesses["H_C11_list_file"] = H_C11_list_file
	vHarnesses["H_C11_errors"] = H_C11_errors
}
