package gcsemu

// C04 — preconditions gate mutations exactly; a failed one changes nothing.

import (
	"net/http"
	"net/url"

	cloudstorage "cloud.google.com/go/storage"
	"google.golang.org/api/storage/v1"
)

type c04Conds struct {
	gmSet            bool
	gm, gnm, mm, mnm int64
}

// c04Symbolic returns conditions as parseConds would produce them from the four parameters,
// each absent or carrying an arbitrary int64.
func c04Symbolic() (cloudstorage.Conditions, c04Conds) {
	var c c04Conds
	if vChoice("ifGenerationMatch.set", 0, 1) == 1 {
		c.gmSet = true
		c.gm = vNondetInt64("ifGenerationMatch")
	}
	if vChoice("ifGenerationNotMatch.set", 0, 1) == 1 {
		c.gnm = vNondetInt64("ifGenerationNotMatch")
		vAssume(c.gnm != 0) // 0 is indistinguishable from "absent" in the Conditions type
	}
	if vChoice("ifMetagenerationMatch.set", 0, 1) == 1 {
		c.mm = vNondetInt64("ifMetagenerationMatch")
		vAssume(c.mm != 0)
	}
	if vChoice("ifMetagenerationNotMatch.set", 0, 1) == 1 {
		c.mnm = vNondetInt64("ifMetagenerationNotMatch")
		vAssume(c.mnm != 0)
	}
	conds := cloudstorage.Conditions{GenerationMatch: c.gm, GenerationNotMatch: c.gnm, MetagenerationMatch: c.mm, MetagenerationNotMatch: c.mnm}
	if c.gmSet {
		conds.DoesNotExist = c.gm == 0
	}
	return conds, c
}

// c04Spec: (pass, failing match-kind condition, failing not-match-kind condition).
func c04Spec(c c04Conds, st vObjState) (pass, failMatch, failNot bool) {
	if !st.exists {
		anyOther := vOr(c.gnm != 0, vOr(c.mm != 0, c.mnm != 0))
		mustNotExistOnly := vAnd(c.gmSet, c.gm == 0)
		pass = vAnd(vNot(anyOther), vOr(!c.gmSet, mustNotExistOnly))
		return pass, vNot(pass), vNot(pass)
	}
	failGm := vAnd(c.gmSet, vNot(vAnd(c.gm != 0, c.gm == st.gen)))
	failMm := vAnd(c.mm != 0, c.mm != st.metagen)
	failGnm := vAnd(c.gnm != 0, c.gnm == st.gen)
	failMnm := vAnd(c.mnm != 0, c.mnm == st.metagen)
	failMatch = vOr(failGm, failMm)
	failNot = vOr(failGnm, failMnm)
	return vNot(vOr(failMatch, failNot)), failMatch, failNot
}

func c04CheckCode(code int, failMatch, failNot bool, absentOK404 bool, tag string) {
	if absentOK404 && code == http.StatusNotFound {
		return
	}
	okCode := false
	if code == http.StatusPreconditionFailed {
		okCode = failMatch
	}
	if code == http.StatusNotModified {
		okCode = failNot
	}
	vAssert(okCode, tag+":failure-code-412-or-304-by-kind")
}

// c04Setup: object "o" absent or present (optionally patched once), plus a neighbour.
func c04Setup() (*GcsEmu, vObjState, vObjState) {
	g := vNewEmuOn(vChoice("store", 0, 1))
	vPut(g, "b", "other", []byte("n"))
	if vChoice("object.present", 0, 1) == 1 {
		vPut(g, "b", "o", []byte("x"))
		if vChoice("object.patched", 0, 1) == 1 {
			w := vNewRecorder()
			r := &http.Request{Body: &vBody{decode: func(v interface{}) error {
				(*v.(**storage.Object)).ContentType = "text/x"
				return nil
			}}}
			g.handleGcsUpdateMetadataRequest(vCtx(), dontNeedUrls, w, r, "b", "o", emptyConds)
			if w.code != http.StatusOK {
				vFatal("setup patch failed")
			}
		}
	}
	return g, vSnap(g, "b", "o"), vSnap(g, "b", "other")
}

func H_C04_ops() {
	g, before, otherBefore := c04Setup()
	conds, c := c04Symbolic()
	pass, failMatch, failNot := c04Spec(c, before)
	op := vChoice("op", 0, 3)
	code := 0
	switch op {
	case 0: // upload
		_, err := g.finishUpload(vCtx(), dontNeedUrls, &storage.Object{Bucket: "b", Name: "o"}, []byte("new"), "b", conds)
		after := vSnap(g, "b", "o")
		vAssert((err == nil) == pass, "upload:performed-iff-preconditions-hold")
		if err == nil {
			vAssert(after.exists && string(after.content) == "new" && after.metagen == 1, "upload:performed")
			vAssert(vOr(!before.exists, after.gen != before.gen), "upload:new-generation")
			vReach("c04-pass")
		} else {
			code = httpStatusCodeOf(err)
			c04CheckCode(code, failMatch, failNot, false, "upload")
			vAssert(vSameState(before, after), "upload:failed-precondition-changes-nothing")
			vReach("c04-fail")
		}
	case 1: // metadata patch
		w := vNewRecorder()
		// the body may be a full (possibly stale) resource: it can carry any metageneration
		bodyMeta := vChoice("patch.body-metageneration", 0, 1) == 1
		bm := vNondetInt64("patch.body.metageneration")
		r := &http.Request{Body: &vBody{decode: func(v interface{}) error {
			(*v.(**storage.Object)).ContentType = "text/patched"
			if bodyMeta {
				(*v.(**storage.Object)).Metageneration = bm
			}
			return nil
		}}}
		g.handleGcsUpdateMetadataRequest(vCtx(), dontNeedUrls, w, r, "b", "o", conds)
		after := vSnap(g, "b", "o")
		if !before.exists {
			vAssert(w.code == http.StatusNotFound || w.code == http.StatusPreconditionFailed || w.code == http.StatusNotModified, "patch:absent-object-not-patched")
			vAssert(!after.exists, "patch:absent-stays-absent")
			break
		}
		vAssert((w.code == http.StatusOK) == pass, "patch:performed-iff-preconditions-hold")
		if w.code == http.StatusOK {
			vAssert(after.metagen == before.metagen+1 && after.gen == before.gen && after.ctype == "text/patched", "patch:performed")
			vReach("c04-pass")
		} else {
			c04CheckCode(w.code, failMatch, failNot, false, "patch")
			vAssert(w.errorBody(), "patch:json-error-envelope")
			vAssert(vSameState(before, after), "patch:failed-precondition-changes-nothing")
			vReach("c04-fail")
		}
	case 2: // delete
		w := vNewRecorder()
		g.handleGcsDelete(vCtx(), w, "b", "o", conds)
		after := vSnap(g, "b", "o")
		if !before.exists {
			vAssert(w.code == http.StatusNotFound || w.code == http.StatusPreconditionFailed || w.code == http.StatusNotModified, "delete:absent-object")
			vAssert(!after.exists, "delete:absent-stays-absent")
			break
		}
		vAssert((w.code == http.StatusNoContent) == pass, "delete:performed-iff-preconditions-hold")
		if w.code == http.StatusNoContent {
			vAssert(!after.exists, "delete:performed")
			vReach("c04-pass")
		} else {
			c04CheckCode(w.code, failMatch, failNot, false, "delete")
			vAssert(vSameState(before, after), "delete:failed-precondition-changes-nothing")
			vReach("c04-fail")
		}
	case 3: // compose onto "o" from the neighbour, destination conditions
		w := vNewRecorder()
		r := &http.Request{Body: &vBody{decode: func(v interface{}) error {
			req := v.(*storage.ComposeRequest)
			req.Destination = &storage.Object{ContentType: "text/c"}
			req.SourceObjects = []*storage.ComposeRequestSourceObjects{{Name: "other"}}
			return nil
		}}}
		g.handleGcsCompose(vCtx(), dontNeedUrls, w, r, "b", "o/compose", conds)
		after := vSnap(g, "b", "o")
		vAssert((w.code == http.StatusOK) == pass, "compose:performed-iff-preconditions-hold")
		if w.code == http.StatusOK {
			vAssert(after.exists && string(after.content) == "n" && after.metagen == 1, "compose:performed")
			vReach("c04-pass")
		} else {
			c04CheckCode(w.code, failMatch, failNot, false, "compose")
			vAssert(vSameState(before, after), "compose:failed-precondition-changes-nothing")
			vReach("c04-fail")
		}
	}
	vAssert(vSameState(otherBefore, vSnap(g, "b", "other")), "other-objects-untouched")
}

// H_C04_source: compose with a per-source ifGenerationMatch.
func H_C04_source() {
	g := vNewEmuOn(vChoice("store", 0, 1))
	srcs := []*storage.Object{vPut(g, "b", "src", []byte("s")), vPut(g, "b", "src2", []byte("t"))}
	vPut(g, "b", "dst", []byte("d"))
	before := vSnap(g, "b", "dst")
	// one or two sources; each carries an optional generation precondition with an arbitrary value
	n := vChoice("sources", 1, 2)
	var list []*storage.ComposeRequestSourceObjects
	pass := true
	for i := 0; i < n; i++ {
		so := &storage.ComposeRequestSourceObjects{Name: srcs[i].Name}
		if vChoice("source.conditioned", 0, 1) == 1 {
			gm := vNondetInt64("source.ifGenerationMatch")
			so.ObjectPreconditions = &storage.ComposeRequestSourceObjectsObjectPreconditions{IfGenerationMatch: gm}
			pass = vAnd(pass, vOr(gm == 0, gm == srcs[i].Generation))
		}
		list = append(list, so)
	}
	w := vNewRecorder()
	r := &http.Request{Body: &vBody{decode: func(v interface{}) error {
		req := v.(*storage.ComposeRequest)
		req.Destination = &storage.Object{}
		req.SourceObjects = list
		return nil
	}}}
	g.handleGcsCompose(vCtx(), dontNeedUrls, w, r, "b", "dst/compose", emptyConds)
	after := vSnap(g, "b", "dst")
	vAssert((w.code == http.StatusOK) == pass, "compose-source:performed-iff-every-supplied-generation-matches")
	if w.code != http.StatusOK {
		vAssert(w.code == http.StatusPreconditionFailed, "compose-source:412")
		vAssert(vSameState(before, after), "compose-source:failed-precondition-changes-nothing")
		vReach("c04-source-fail")
	} else {
		vAssert(len(after.content) == n, "compose-source:composed")
		vReach("c04-source-pass")
	}
}

// H_C04_race: "performed iff the condition holds" under concurrency. A compose onto dst conditioned
// on dst's current generation overlaps an unconditional upload to dst, all interleavings. The upload
// always succeeds; it either follows the compose or changes the generation first, in which case the
// compose must be refused - so the final content is always the upload's.
func H_C04_race() {
	g := vNewEmu()
	vPut(g, "b", "src", []byte("S"))
	base := vPut(g, "b", "dst", []byte("d"))
	w := vNewRecorder()
	var uerr error
	if vChoice("conditional-request", 0, 1) == 1 {
		// a DELETE conditioned on the old generation: it either removes the old object (the upload then
		// re-creates it) or is refused because the upload came first - the upload's object always survives
		vGo(func() {
			g.handleGcsDelete(vCtx(), w, "b", "dst", cloudstorage.Conditions{GenerationMatch: base.Generation})
		})
		vGo(func() {
			_, uerr = g.finishUpload(vCtx(), dontNeedUrls, &storage.Object{Bucket: "b", Name: "dst"}, []byte("U"), "b", emptyConds)
		})
		vJoin()
		vAssert(uerr == nil, "race:unconditional-upload-ok")
		vAssert(w.code == http.StatusNoContent || w.code == http.StatusPreconditionFailed, "race:delete-ok-or-412")
		st := vSnap(g, "b", "dst")
		vAssert(st.exists && string(st.content) == "U", "race:a-delete-conditioned-on-the-old-generation-never-removes-the-newer-upload")
		vReach("c04-race")
		return
	}
	vGo(func() {
		r := &http.Request{Body: &vBody{decode: func(v interface{}) error {
			req := v.(*storage.ComposeRequest)
			req.Destination = &storage.Object{}
			req.SourceObjects = []*storage.ComposeRequestSourceObjects{{Name: "src"}}
			return nil
		}}}
		g.handleGcsCompose(vCtx(), dontNeedUrls, w, r, "b", "dst/compose", cloudstorage.Conditions{GenerationMatch: base.Generation})
	})
	vGo(func() {
		_, uerr = g.finishUpload(vCtx(), dontNeedUrls, &storage.Object{Bucket: "b", Name: "dst"}, []byte("U"), "b", emptyConds)
	})
	vJoin()
	vAssert(uerr == nil, "race:unconditional-upload-ok")
	vAssert(w.code == http.StatusOK || w.code == http.StatusPreconditionFailed, "race:compose-ok-or-412")
	st := vSnap(g, "b", "dst")
	vAssert(st.exists && string(st.content) == "U", "race:a-compose-conditioned-on-the-old-generation-never-overwrites-the-newer-upload")
	vReach("c04-race")
}

// H_C04_parse: parseConds on arbitrary short parameter values.
func H_C04_parse() {
	names := []string{"ifGenerationMatch", "ifGenerationNotMatch", "ifMetagenerationMatch", "ifMetagenerationNotMatch"}
	which := vChoice("param", 0, 3)
	raw := vNondetBytes("value", vChoice("value.len", 1, vBound("value-len", 2, 3)))
	vals := url.Values{names[which]: []string{string(raw)}}
	conds, err := parseConds(vals)
	// reference: optional sign followed by one or more decimal digits
	digits := raw
	signed := vOr(raw[0] == '+', raw[0] == '-')
	okNum := true
	var val int64
	neg := raw[0] == '-'
	start := 0
	if len(raw) > 1 {
		// with a sign the rest must be digits; without, all must be digits
		_ = digits
	}
	isDigit := func(b byte) bool { return vAnd(b >= '0', b <= '9') }
	// all-digits case
	allDigits := true
	for _, b := range raw {
		allDigits = vAnd(allDigits, isDigit(b))
	}
	restDigits := len(raw) > 1
	for _, b := range raw[1:] {
		restDigits = vAnd(restDigits, isDigit(b))
	}
	okNum = vOr(allDigits, vAnd(signed, restDigits))
	_ = start
	vAssert((err == nil) == okNum, "unparsable-condition-is-an-error")
	if err == nil {
		// value: compute from digits
		for i, b := range raw {
			if i == 0 && vOr(b == '+', b == '-') {
				continue
			}
			val = val*10 + int64(b-'0')
		}
		if neg {
			val = -val
		}
		got := []int64{conds.GenerationMatch, conds.GenerationNotMatch, conds.MetagenerationMatch, conds.MetagenerationNotMatch}[which]
		vAssert(got == val, "parsed-value")
		if which == 0 {
			vAssert(conds.DoesNotExist == (val == 0), "zero-generation-match-means-must-not-exist")
		}
		vReach("c04-parse-ok")
	} else {
		vReach("c04-parse-err")
	}
}

// H_C04_parse_all: any subset of the four parameters, each a one-byte value: the parsed
// conditions are exactly those supplied, and "must not exist" depends on ifGenerationMatch alone.
func H_C04_parse_all() {
	names := []string{"ifGenerationMatch", "ifGenerationNotMatch", "ifMetagenerationMatch", "ifMetagenerationNotMatch"}
	vals := url.Values{}
	var set [4]bool
	var digit [4]byte
	for i, n := range names {
		if vChoice("param.set", 0, 1) == 1 {
			set[i] = true
			digit[i] = vNondetByte("digit")
			vAssume(vAnd(digit[i] >= '0', digit[i] <= '9'))
			vals[n] = []string{string([]byte{digit[i]})}
		}
	}
	conds, err := parseConds(vals)
	vAssert(err == nil, "digits-parse")
	if err != nil {
		return
	}
	got := []int64{conds.GenerationMatch, conds.GenerationNotMatch, conds.MetagenerationMatch, conds.MetagenerationNotMatch}
	for i := range names {
		want := int64(0)
		if set[i] {
			want = int64(digit[i] - '0')
		}
		vAssert(got[i] == want, "each-parameter-parsed-independently")
	}
	wantDNE := false
	if set[0] {
		wantDNE = digit[0] == '0'
	}
	vAssert(conds.DoesNotExist == wantDNE, "must-not-exist-iff-ifGenerationMatch-is-zero")
	vReach("c04-parse-all")
}

var vHarnesses = map[string]func(){
	"H_C04_parse_all": H_C04_parse_all,
	"H_C04_ops":       H_C04_ops,
	"H_C04_source":    H_C04_source,
	"H_C04_parse":     H_C04_parse,
}
