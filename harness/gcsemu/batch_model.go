package gcsemu

// A model of the framing around BatchHandler: the incoming multipart/mixed body is a list of parts
// with MIME headers whose content is an embedded HTTP request (request line and headers modelled as
// a handle, followed by the body bytes); http.ReadRequest turns the handle back into a request whose
// Content-Length is whatever the embedded request declares (any int64 the harness chooses);
// httptest.ResponseRecorder, (*http.Response).Write and multipart.Writer are reduced to recorders.
// Everything BatchHandler itself does with these runs for real.

import (
	"bufio"
	"bytes"
	"io"
	"mime/multipart"
	"net/http"
	"net/http/httptest"
	"net/textproto"
	"net/url"
)

// vEmbedded is the request line and headers of an embedded request.
type vEmbedded struct {
	method, path, query string
	contentLength       int64 // as declared by the embedded Content-Length header (may be symbolic)
	malformed           bool  // the request line does not parse
}

var (
	vEmbeds    []*vEmbedded
	vSubRecs   map[*httptest.ResponseRecorder]*vRecorder
	vMpWriters map[*multipart.Writer]*vBatchOut
)

type vBatchOut struct {
	parts  int
	closed bool
}

type vSink struct{}

func (vSink) Write(p []byte) (int, error) { return len(p), nil }

func stubRequestMultipartReader(r *http.Request) (*multipart.Reader, error) {
	b, ok := r.Body.(*vBody)
	if !ok || b.parts == nil {
		return nil, vBadJSON{}
	}
	return stubMultipartNewReader(b, vBoundary), nil
}

func stubPartClose(p *multipart.Part) error { return nil }

// vEmbedBytes: the content of an application/http part: a handle for the head, then the body.
func vEmbedBytes(e *vEmbedded, body []byte) []byte {
	vJSONMu.Lock()
	vEmbeds = append(vEmbeds, e)
	idx := len(vEmbeds) - 1
	vJSONMu.Unlock()
	return append([]byte{0xfc, byte(idx)}, body...)
}

type vHTTPErr struct{}

func (vHTTPErr) Error() string { return "malformed HTTP request" }

func stubReadRequest(b *bufio.Reader) (*http.Request, error) {
	h0, err := b.ReadByte()
	if err != nil || h0 != 0xfc {
		return nil, vHTTPErr{}
	}
	h1, err := b.ReadByte()
	if err != nil {
		return nil, vHTTPErr{}
	}
	vJSONMu.Lock()
	e := vEmbeds[h1]
	vJSONMu.Unlock()
	if e.malformed {
		return nil, vHTTPErr{}
	}
	if e.contentLength < 0 {
		return nil, vHTTPErr{} // net/http: bad Content-Length
	}
	return &http.Request{Method: e.method, URL: &url.URL{Path: e.path, RawQuery: e.query}, Header: http.Header{},
		ContentLength: e.contentLength, Body: &vBody{}, Proto: "HTTP/1.1", ProtoMajor: 1, ProtoMinor: 1}, nil
}

// vReadAllBufio drains a bufio.Reader (the rest of an embedded request is its body).
func vReadAllBufio(b *bufio.Reader) []byte {
	var out []byte
	for {
		c, err := b.ReadByte()
		if err != nil {
			return out
		}
		out = append(out, c)
	}
}

func stubNewRecorder() *httptest.ResponseRecorder {
	rr := new(httptest.ResponseRecorder)
	rr.Body, rr.Code = new(bytes.Buffer), http.StatusOK
	vJSONMu.Lock()
	defer vJSONMu.Unlock()
	if vSubRecs == nil {
		vSubRecs = map[*httptest.ResponseRecorder]*vRecorder{}
	}
	vSubRecs[rr] = vNewRecorder()
	return rr
}

func vSub(rr *httptest.ResponseRecorder) *vRecorder {
	vJSONMu.Lock()
	defer vJSONMu.Unlock()
	return vSubRecs[rr]
}

func stubRRHeader(rr *httptest.ResponseRecorder) http.Header           { return vSub(rr).Header() }
func stubRRWrite(rr *httptest.ResponseRecorder, b []byte) (int, error) { return vSub(rr).Write(b) }
func stubRRWriteHeader(rr *httptest.ResponseRecorder, code int)        { vSub(rr).WriteHeader(code) }
func stubRRResult(rr *httptest.ResponseRecorder) *http.Response {
	code := vSub(rr).code
	if code == 0 {
		code = http.StatusOK
	}
	return &http.Response{StatusCode: code, Header: vSub(rr).h}
}

func stubResponseWrite(r *http.Response, w io.Writer) error { return nil }

func stubMultipartNewWriter(w io.Writer) *multipart.Writer {
	mw := new(multipart.Writer)
	vJSONMu.Lock()
	defer vJSONMu.Unlock()
	if vMpWriters == nil {
		vMpWriters = map[*multipart.Writer]*vBatchOut{}
	}
	vMpWriters[mw] = &vBatchOut{}
	vLastBatchOut = vMpWriters[mw]
	return mw
}

var vLastBatchOut *vBatchOut

func stubMpBoundary(mw *multipart.Writer) string { return vBoundary }
func stubMpCreatePart(mw *multipart.Writer, h textproto.MIMEHeader) (io.Writer, error) {
	vJSONMu.Lock()
	defer vJSONMu.Unlock()
	vMpWriters[mw].parts++
	return vSink{}, nil
}
func stubMpClose(mw *multipart.Writer) error {
	vJSONMu.Lock()
	defer vJSONMu.Unlock()
	vMpWriters[mw].closed = true
	return nil
}

func vBatchStubs() map[string]interface{} {
	return map[string]interface{}{
		"(*net/http.Request).MultipartReader":               stubRequestMultipartReader,
		"(*mime/multipart.Part).Close":                      stubPartClose,
		"net/http.ReadRequest":                              stubReadRequest,
		"net/http/httptest.NewRecorder":                     stubNewRecorder,
		"(*net/http/httptest.ResponseRecorder).Header":      stubRRHeader,
		"(*net/http/httptest.ResponseRecorder).Write":       stubRRWrite,
		"(*net/http/httptest.ResponseRecorder).WriteHeader": stubRRWriteHeader,
		"(*net/http/httptest.ResponseRecorder).Result":      stubRRResult,
		"(*net/http.Response).Write":                        stubResponseWrite,
		"mime/multipart.NewWriter":                          stubMultipartNewWriter,
		"(*mime/multipart.Writer).Boundary":                 stubMpBoundary,
		"(*mime/multipart.Writer).CreatePart":               stubMpCreatePart,
		"(*mime/multipart.Writer).Close":                    stubMpClose,
	}
}
