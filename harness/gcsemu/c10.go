package gcsemu

// C10 — generation and metageneration follow the versioning laws.

import (
	"net/http"
	"net/url"

	cloudstorage "cloud.google.com/go/storage"
	"google.golang.org/api/storage/v1"
)

type c10Model struct {
	exists  bool
	gen     int64
	metagen int64
	content string
	ctype   string
	md5     string
	seen    []int64 // every generation this name ever had
}

func c10List(g *GcsEmu, bucket string) []*storage.Object {
	w := vNewRecorder()
	g.handleGcsListBucket(vCtx(), dontNeedUrls, w, url.Values{}, bucket)
	for _, b := range w.all() {
		if l, ok := b.(*storage.Objects); ok {
			return l.Items
		}
	}
	return nil
}

// c10Agree: metadata GET, media headers and listing report the same numbers as the store.
func c10Agree(g *GcsEmu, names []string, ms []*c10Model, tag string) {
	items := c10List(g, "b")
	for i, n := range names {
		st := vSnap(g, "b", n)
		m := ms[i]
		vAssert(st.exists == m.exists, tag+":existence")
		if !m.exists {
			continue
		}
		vAssert(vAnd(st.gen == m.gen, st.metagen == m.metagen), tag+":generation-and-metageneration-as-modelled")
		vAssert(string(st.content) == m.content && st.md5 == m.md5, tag+":content-and-md5-as-modelled")
		// metadata GET
		w := vNewRecorder()
		g.handleGcsMetadataRequest(dontNeedUrls, w, "b", n)
		o := w.object()
		vAssert(o != nil, tag+":metadata-get")
		if o != nil {
			vAssert(vAnd(o.Generation == m.gen, o.Metageneration == m.metagen), tag+":metadata-get-agrees")
			vAssert(o.Size == uint64(len(m.content)) && o.Name == n, tag+":metadata-get-size-and-name")
		}
		// listing
		found := 0
		for _, it := range items {
			if it.Name == n {
				found++
				vAssert(vAnd(it.Generation == m.gen, it.Metageneration == m.metagen), tag+":listing-agrees")
			}
		}
		vAssert(found == 1, tag+":listed-once")
	}
}

func c10Written(m *c10Model, meta *storage.Object, content string, tag string) {
	// a content write: generation new and greater than every earlier one, metageneration 1
	ok := true
	for _, s := range m.seen {
		ok = vAnd(ok, meta.Generation > s)
	}
	vAssert(ok, tag+":generation-greater-than-all-earlier")
	vAssert(meta.Metageneration == 1, tag+":metageneration-1-after-content-write")
	m.exists, m.gen, m.metagen, m.content = true, meta.Generation, 1, content
	m.md5 = meta.Md5Hash
	m.ctype = meta.ContentType
	m.seen = append(m.seen, meta.Generation)
}

func H_C10_history() {
	g := vNewEmuOn(vChoice("store", 0, 1))
	names := []string{"o", "p"}
	ms := []*c10Model{{}, {}}
	k := vBound("steps", 3, 4)
	for step := 0; step < k; step++ {
		i := vChoice("name", 0, 1)
		n, m := names[i], ms[i]
		switch vChoice("op", 0, 6) {
		case 0: // upload (media / resumable-final / multipart all end in finishUpload)
			content := []string{"x", "yz", ""}[vChoice("upload.content", 0, 2)]
			meta, err := g.finishUpload(vCtx(), dontNeedUrls, &storage.Object{Bucket: "b", Name: n}, []byte(content), "b", emptyConds)
			vAssert(err == nil && meta != nil, "upload-ok")
			if meta != nil {
				c10Written(m, meta, content, "upload")
			}
		case 1: // patch with an arbitrary body, including fields a polite client would not send
			w := vNewRecorder()
			evil := vChoice("patch.evil", 0, 4)
			eg, em := vNondetInt64("patch.generation"), vNondetInt64("patch.metageneration")
			r := &http.Request{Body: &vBody{decode: func(v interface{}) error {
				o := *v.(**storage.Object)
				o.ContentType = "text/patched"
				o.Metadata = map[string]string{"k": "v"}
				switch evil {
				case 1:
					o.Generation = eg
				case 2:
					o.Metageneration = em
				case 3:
					o.Md5Hash = "Ym9ndXM="
					o.Size = 77
				case 4:
					o.Name = "elsewhere"
					o.Bucket = "elsewhere"
				}
				return nil
			}}}
			g.handleGcsUpdateMetadataRequest(vCtx(), dontNeedUrls, w, r, "b", n, emptyConds)
			if !m.exists {
				vAssert(w.code == http.StatusNotFound, "patch-missing-404")
				break
			}
			vAssert(w.code == http.StatusOK, "patch-ok")
			m.metagen++
			m.ctype = "text/patched"
			if o := w.object(); o != nil {
				vAssert(vAnd(o.Generation == m.gen, o.Metageneration == m.metagen), "patch-response-agrees")
			}
			vReach("c10-patch")
		case 2: // failed request: upload with a failing precondition
			_, err := g.finishUpload(vCtx(), dontNeedUrls, &storage.Object{Bucket: "b", Name: n}, []byte("never"), "b",
				cloudstorage.Conditions{GenerationMatch: 12345})
			vAssert(err != nil, "precondition-fails")
			// ... and an upload whose declared MD5 does not match its bytes
			_, err = g.finishUpload(vCtx(), dontNeedUrls, &storage.Object{Bucket: "b", Name: n, Md5Hash: "1B2M2Y8AsgTpgAmY7PhCfg=="}, []byte("never"), "b", emptyConds)
			vAssert(err != nil && httpStatusCodeOf(err) == http.StatusBadRequest, "md5-mismatch-fails")
		case 3: // reads
			w := vNewRecorder()
			g.handleGcsMediaRequest(dontNeedUrls, w, "", "b", n)
			if m.exists {
				vAssert(w.code == http.StatusOK && string(w.raw) == m.content, "media-download")
			} else {
				vAssert(w.code == http.StatusNotFound, "media-404")
			}
		case 4: // delete
			w := vNewRecorder()
			g.handleGcsDelete(vCtx(), w, "b", n, emptyConds)
			if m.exists {
				vAssert(w.code == http.StatusNoContent, "delete-ok")
				m.exists = false
			} else {
				vAssert(w.code == http.StatusNotFound, "delete-missing-404")
			}
		case 5: // compose onto n from the other name
			src := ms[1-i]
			w := vNewRecorder()
			r := &http.Request{Body: &vBody{decode: func(v interface{}) error {
				req := v.(*storage.ComposeRequest)
				req.Destination = &storage.Object{}
				req.SourceObjects = []*storage.ComposeRequestSourceObjects{{Name: names[1-i]}}
				return nil
			}}}
			g.handleGcsCompose(vCtx(), dontNeedUrls, w, r, "b", n+"/compose", emptyConds)
			if !src.exists {
				vAssert(w.code == http.StatusNotFound, "compose-missing-source-404")
				break
			}
			o := w.object()
			vAssert(w.code == http.StatusOK && o != nil, "compose-ok")
			if o != nil {
				c10Written(m, o, src.content, "compose")
			}
		case 6: // copy the other name onto n
			src := ms[1-i]
			w := vNewRecorder()
			g.handleGcsCopy(vCtx(), dontNeedUrls, w, "b", names[1-i]+"/rewriteTo/b/b/o/"+n)
			if !src.exists {
				vAssert(w.code == http.StatusNotFound, "copy-missing-source-404")
				break
			}
			var res *storage.Object
			for _, b := range w.all() {
				if rr, ok := b.(*storage.RewriteResponse); ok {
					res = rr.Resource
				}
			}
			vAssert(w.code == http.StatusOK && res != nil, "copy-ok")
			if res != nil {
				c10Written(m, res, src.content, "copy")
				vAssert(res.Md5Hash == src.md5, "copy-keeps-md5")
			}
		}
		c10Agree(g, names, ms, "after")
	}
	vReach("c10-history")
}

// H_C10_race: a content write (upload, copy onto the name, compose onto the name) overlapping a
// metadata PATCH of the same object, all interleavings. Whatever the order, the stored object is
// the writer's: its content, its MD5, the generation it reported (greater than the old one); the
// PATCH, if it was serialised second, raised metageneration to 2 and set its field, otherwise it
// was overwritten by the write and metageneration is 1.
func H_C10_race() {
	g := vNewEmu()
	vPut(g, "b", "src", []byte("S"))
	base := vPut(g, "b", "o", []byte("base"))
	kind := vChoice("writer", 0, 2)
	var wrote *storage.Object
	var wcode, pcode int
	vGo(func() {
		w := vNewRecorder()
		switch kind {
		case 0:
			m, err := g.finishUpload(vCtx(), dontNeedUrls, &storage.Object{Bucket: "b", Name: "o"}, []byte("S"), "b", emptyConds)
			if err == nil {
				cp := *m
				wrote, wcode = &cp, http.StatusOK
			}
			return
		case 1:
			g.handleGcsCopy(vCtx(), dontNeedUrls, w, "b", "src/rewriteTo/b/b/o/o")
		case 2:
			r := &http.Request{Body: &vBody{decode: func(v interface{}) error {
				req := v.(*storage.ComposeRequest)
				req.Destination = &storage.Object{}
				req.SourceObjects = []*storage.ComposeRequestSourceObjects{{Name: "src"}}
				return nil
			}}}
			g.handleGcsCompose(vCtx(), dontNeedUrls, w, r, "b", "o/compose", emptyConds)
		}
		wcode = w.code
		wrote = w.object()
		for _, b := range w.all() {
			if o, ok := b.(*storage.RewriteResponse); ok {
				wrote = o.Resource
			}
		}
	})
	vGo(func() { pcode = c07Patch(g, emptyConds, "text/patched") })
	vJoin()
	st := vSnap(g, "b", "o")
	vAssert(wcode == http.StatusOK && wrote != nil, "content-write-ok")
	vAssert(pcode == http.StatusOK, "patch-ok")
	if wrote == nil {
		return
	}
	vAssert(st.exists && string(st.content) == "S", "content-is-the-writer's")
	vAssert(st.gen > base.Generation, "generation-greater-than-before")
	vAssert(st.gen == wrote.Generation, "stored-generation-is-the-one-the-write-reported")
	vAssert(st.md5 == wrote.Md5Hash && wrote.Md5Hash != base.Md5Hash, "md5-belongs-to-the-content")
	vAssert(st.metagen == 1 || st.metagen == 2 && st.ctype == "text/patched", "metageneration-1-or-patched-once-after-the-write")
	w := vNewRecorder()
	g.handleGcsMetadataRequest(dontNeedUrls, w, "b", "o")
	if o := w.object(); o != nil {
		vAssert(o.Generation == st.gen && o.Metageneration == st.metagen && o.Size == 1, "metadata-get-agrees")
	}
	vReach("c10-race")
}

func init() {
	vHarnesses["H_C10_race"] = H_C10_race
	vHarnesses["H_C10_history"] = H_C10_history
}
