package gcsemu

// Native plumbing: everything in this file runs only in the natively compiled replay (vSymbolic()
// is false there), where nothing is stubbed: request bodies become real JSON / gzip bytes, the
// recorder decodes the real JSON responses back into the typed values the harnesses look at, the
// upload-id cache is a real gcache and the file store sits on a real temporary directory. It lets
// the check replay counterexamples, and validate sampled passing paths, against the real code.

import (
	"bytes"
	"compress/gzip"
	"encoding/json"
	"os"
	"path/filepath"
	"reflect"
	"strings"

	"google.golang.org/api/storage/v1"
)

// vTry runs f and reports whether it returned without panicking (a decode closure applied to a
// value of the wrong type panics in its type assertion).
func vTry(f func()) (ok bool) {
	defer func() {
		if recover() != nil {
			ok = false
		}
	}()
	f()
	return true
}

// vNativeJSON turns a decode closure into the JSON document a client would have sent: the closure
// is applied to an all-zero value and to an all-sentinel value; the fields it assigns in either are
// the fields of the document (zero values included, as an explicit JSON zero).
func vNativeJSON(decode func(v interface{}) error) []byte {
	// PATCH: **storage.Object ; new object: *storage.Object
	for _, indirect := range []bool{true, false} {
		zero, sent := &storage.Object{}, vSentinelObject()
		apply := func(o *storage.Object) bool {
			if indirect {
				return vTry(func() { decode(&o) })
			}
			return vTry(func() { decode(o) })
		}
		if !apply(zero) || !apply(sent) {
			continue
		}
		out := &storage.Object{}
		ref := vSentinelObject()
		zv, sv, ov, rv := reflect.ValueOf(zero).Elem(), reflect.ValueOf(sent).Elem(), reflect.ValueOf(out).Elem(), reflect.ValueOf(ref).Elem()
		for i := 0; i < zv.NumField(); i++ {
			f := zv.Type().Field(i)
			if f.Name == "ForceSendFields" || f.Name == "NullFields" || f.Name == "ServerResponse" || !f.IsExported() {
				continue
			}
			touched := !zv.Field(i).IsZero() || !reflect.DeepEqual(sv.Field(i).Interface(), rv.Field(i).Interface())
			if !touched {
				continue
			}
			ov.Field(i).Set(zv.Field(i))
			if zv.Field(i).IsZero() {
				out.ForceSendFields = append(out.ForceSendFields, f.Name)
			}
		}
		b, err := json.Marshal(out)
		if err != nil {
			panic(err)
		}
		return b
	}
	for _, v := range []interface{}{&storage.ComposeRequest{}, &storage.Bucket{}} {
		v := v
		if vTry(func() { decode(v) }) {
			b, err := json.Marshal(v)
			if err != nil {
				panic(err)
			}
			return b
		}
	}
	return []byte("{not json")
}

// vSentinelObject: every scalar field holds a value no harness uses.
func vSentinelObject() *storage.Object {
	o := &storage.Object{}
	v := reflect.ValueOf(o).Elem()
	for i := 0; i < v.NumField(); i++ {
		f := v.Field(i)
		if !v.Type().Field(i).IsExported() {
			continue
		}
		switch f.Kind() {
		case reflect.String:
			f.SetString("\x01sentinel")
		case reflect.Int64, reflect.Int:
			f.SetInt(-0x5e471e1)
		case reflect.Uint64:
			f.SetUint(0x5e471e1)
		case reflect.Bool:
			f.SetBool(true)
		case reflect.Map:
			if f.Type().Key().Kind() == reflect.String && f.Type().Elem().Kind() == reflect.String {
				f.Set(reflect.ValueOf(map[string]string{"\x01sentinel": "1"}))
			}
		}
	}
	o.ForceSendFields, o.NullFields = nil, nil
	return o
}

// vNativeBytes is what travels on the wire for a body.
func vNativeBytes(b *vBody) []byte {
	data := b.raw
	if b.decode != nil {
		data = vNativeJSON(b.decode)
	}
	if b.parts != nil {
		data = vNativeMultipart(b.parts)
	}
	if b.gz {
		var buf bytes.Buffer
		zw := gzip.NewWriter(&buf)
		zw.Write(data)
		zw.Close()
		data = buf.Bytes()
	}
	return data
}

// vNativeDecode turns the JSON documents a handler wrote into the typed values the engine's
// encoder stub records; what is left in raw is the non-JSON payload (media downloads).
func vNativeDecode(r *vRecorder) {
	if !strings.HasPrefix(r.h.Get("Content-Type"), "application/json") || len(r.raw) == 0 {
		return
	}
	var probe map[string]json.RawMessage
	if json.Unmarshal(r.raw, &probe) != nil {
		return
	}
	var kind string
	json.Unmarshal(probe["kind"], &kind)
	var v interface{}
	switch {
	case kind == "storage#object":
		v = &storage.Object{}
	case kind == "storage#objects":
		v = &storage.Objects{}
	case kind == "storage#rewriteResponse":
		v = &storage.RewriteResponse{}
	case kind == "storage#bucket":
		v = &storage.Bucket{}
	default:
		m := map[string]interface{}{}
		v = &m
	}
	if err := json.Unmarshal(r.raw, v); err != nil {
		panic("response is not valid JSON: " + err.Error())
	}
	r.bodies = append(r.bodies, v)
	r.raw = nil
}

var vNativeDirs []string

// vNativeFileStore returns a file store on a fresh temporary directory.
func vNativeFileStore() Store {
	dir, err := os.MkdirTemp("", "verif-gcs-")
	if err != nil {
		panic(err)
	}
	vNativeDirs = append(vNativeDirs, dir)
	return NewFileStore(dir)
}

// vNativeCleanup removes the directories of finished replays.
func vNativeCleanup() {
	for _, d := range vNativeDirs {
		os.RemoveAll(d)
	}
	vNativeDirs = nil
}

func vNativeWriteFile(fs Store, bucket, name string, content []byte) error {
	f := fs.(*filestore)
	p := filepath.Join(f.gcsDir, bucket, name)
	if err := os.MkdirAll(filepath.Dir(p), 0777); err != nil {
		return err
	}
	return os.WriteFile(p, content, 0666)
}

func init() { vAfterReplay = vNativeCleanup }
