package gcsemu

// C07 — concurrent operations on one object are atomic and serialisable.
// Real handlers, real TransientLockMap and memstore; all interleavings at the
// granularity of mutex / RW-mutex / channel operations; race detector on.

import (
	"net/http"

	cloudstorage "cloud.google.com/go/storage"
	"google.golang.org/api/storage/v1"
)

func c07Patch(g *GcsEmu, conds cloudstorage.Conditions, ctype string) int {
	w := vNewRecorder()
	r := &http.Request{Body: &vBody{decode: func(v interface{}) error {
		(*v.(**storage.Object)).ContentType = ctype
		return nil
	}}}
	g.handleGcsUpdateMetadataRequest(vCtx(), dontNeedUrls, w, r, "b", "o", conds)
	return w.code
}

func H_C07_writers() {
	g := vNewEmu()
	n := vBound("writers", 2, 3)
	kind := vChoice("kind", 0, 8)
	var base *storage.Object
	if kind == 5 {
		n = 2
		vPut(g, "b", "src", []byte("S"))
	}
	if kind == 6 {
		n = 2
	}
	if kind == 7 {
		n = 2
		vPut(g, "b", "src", []byte("S"))
	}
	if kind == 8 {
		n = 2
		// stored as a request body read with io.ReadAll would be: with spare capacity
		buf := make([]byte, 1, 9)
		buf[0] = 'S'
		vPut(g, "b", "src", buf)
		vPut(g, "b", "t0", []byte("A"))
		vPut(g, "b", "t1", []byte("B"))
	}
	if kind != 1 && kind != 5 && kind != 7 && kind != 8 {
		base = vPut(g, "b", "o", []byte("base"))
	}
	codes := make([]int, n)
	errs := make([]error, n)
	for i := 0; i < n; i++ {
		i := i
		content := []byte{byte('A' + i)}
		vGo(func() {
			switch kind {
			case 0: // uploads conditioned on the same generation
				_, errs[i] = g.finishUpload(vCtx(), dontNeedUrls, &storage.Object{Bucket: "b", Name: "o"}, content, "b",
					cloudstorage.Conditions{GenerationMatch: base.Generation})
			case 1: // uploads conditioned on non-existence
				_, errs[i] = g.finishUpload(vCtx(), dontNeedUrls, &storage.Object{Bucket: "b", Name: "o"}, content, "b",
					cloudstorage.Conditions{DoesNotExist: true})
			case 2: // patches conditioned on the same metageneration
				codes[i] = c07Patch(g, cloudstorage.Conditions{MetagenerationMatch: base.Metageneration}, "text/"+string(content))
			case 3: // unconditional patches: no update is lost
				codes[i] = c07Patch(g, emptyConds, "text/"+string(content))
			case 8: // two composes onto one destination, both conditioned on non-existence, sharing their first source
				w := vNewRecorder()
				tail := []string{"t0", "t1"}[i]
				r := &http.Request{Body: &vBody{decode: func(v interface{}) error {
					req := v.(*storage.ComposeRequest)
					req.Destination = &storage.Object{}
					req.SourceObjects = []*storage.ComposeRequestSourceObjects{{Name: "src"}, {Name: tail}}
					return nil
				}}}
				g.handleGcsCompose(vCtx(), dontNeedUrls, w, r, "b", "o/compose", cloudstorage.Conditions{DoesNotExist: true})
				codes[i] = w.code
			case 7: // an upload conditioned on non-existence racing a copy onto the same name
				if i == 0 {
					_, errs[i] = g.finishUpload(vCtx(), dontNeedUrls, &storage.Object{Bucket: "b", Name: "o"}, content, "b",
						cloudstorage.Conditions{DoesNotExist: true})
				} else {
					w := vNewRecorder()
					g.handleGcsCopy(vCtx(), dontNeedUrls, w, "b", "src/rewriteTo/b/b/o/o")
					codes[i] = w.code
				}
			case 6: // an upload and a delete, both conditioned on the same generation
				if i == 0 {
					_, errs[i] = g.finishUpload(vCtx(), dontNeedUrls, &storage.Object{Bucket: "b", Name: "o"}, content, "b",
						cloudstorage.Conditions{GenerationMatch: base.Generation})
				} else {
					w := vNewRecorder()
					g.handleGcsDelete(vCtx(), w, "b", "o", cloudstorage.Conditions{GenerationMatch: base.Generation})
					codes[i] = w.code
				}
			case 5: // an upload and a compose, both conditioned on non-existence of the destination
				if i == 0 {
					_, errs[i] = g.finishUpload(vCtx(), dontNeedUrls, &storage.Object{Bucket: "b", Name: "o"}, content, "b",
						cloudstorage.Conditions{DoesNotExist: true})
				} else {
					w := vNewRecorder()
					r := &http.Request{Body: &vBody{decode: func(v interface{}) error {
						req := v.(*storage.ComposeRequest)
						req.Destination = &storage.Object{}
						req.SourceObjects = []*storage.ComposeRequestSourceObjects{{Name: "src"}}
						return nil
					}}}
					g.handleGcsCompose(vCtx(), dontNeedUrls, w, r, "b", "o/compose", cloudstorage.Conditions{DoesNotExist: true})
					codes[i] = w.code
				}
			case 4: // deletes conditioned on the same generation
				w := vNewRecorder()
				g.handleGcsDelete(vCtx(), w, "b", "o", cloudstorage.Conditions{GenerationMatch: base.Generation})
				codes[i] = w.code
			}
		})
	}
	// a reader: generation, metageneration, metadata and content belong together
	var rmeta *storage.Object
	var rdata []byte
	vGo(func() {
		m, d, _ := g.store.Get(dontNeedUrls, "b", "o")
		if m != nil {
			cp := *m
			rmeta, rdata = &cp, d
		}
	})
	vJoin()
	st := vSnap(g, "b", "o")
	switch kind {
	case 0, 1:
		wins := 0
		for i := 0; i < n; i++ {
			if errs[i] == nil {
				wins++
				vAssert(st.exists && len(st.content) == 1 && st.content[0] == byte('A'+i), "winner's-content-is-stored")
			} else {
				vAssert(httpStatusCodeOf(errs[i]) == http.StatusPreconditionFailed, "loser-gets-412")
			}
		}
		vAssert(wins == 1, "exactly-one-conditional-writer-succeeds")
	case 2:
		wins := 0
		for i := 0; i < n; i++ {
			if codes[i] == http.StatusOK {
				wins++
			} else {
				vAssert(codes[i] == http.StatusPreconditionFailed, "losing-patch-412")
			}
		}
		vAssert(wins == 1, "metageneration-conditioned-patch-applies-once")
		vAssert(st.metagen == base.Metageneration+1, "metageneration-raised-once")
	case 3:
		for i := 0; i < n; i++ {
			vAssert(codes[i] == http.StatusOK, "patch-ok")
		}
		vAssert(st.metagen == base.Metageneration+int64(n), "no-lost-update: metageneration raised once per patch")
	case 8:
		wins := 0
		for i := 0; i < n; i++ {
			if codes[i] == http.StatusOK {
				wins++
				vAssert(st.exists && string(st.content) == "S"+string(byte('A'+i)), "winning-compose's-content-is-stored")
			} else {
				vAssert(codes[i] == http.StatusPreconditionFailed, "losing-compose-412")
			}
		}
		vAssert(wins == 1, "exactly-one-conditional-compose-succeeds")
		vAssert(string(vSnap(g, "b", "src").content) == "S", "compose-sources-untouched")
	case 7:
		vAssert(codes[1] == http.StatusOK, "copy-ok")
		if errs[0] != nil {
			// the upload lost: the object existed already, i.e. the copy came first and nobody overwrote it
			vAssert(httpStatusCodeOf(errs[0]) == http.StatusPreconditionFailed, "losing-upload-412")
			vAssert(string(st.content) == "S", "copy-content-kept-when-the-conditional-upload-lost")
		} else {
			// the upload won the creation: the copy then replaced it (a copy is unconditional)
			vAssert(string(st.content) == "S", "copy-after-upload-replaces-it")
		}
	case 6:
		wins := 0
		if errs[0] == nil {
			wins++
		}
		if codes[1] == http.StatusNoContent {
			wins++
		}
		vAssert(wins == 1, "upload-and-delete-on-one-generation: exactly one succeeds")
	case 5:
		wins := 0
		if errs[0] == nil {
			wins++
		}
		if codes[1] == http.StatusOK {
			wins++
		} else {
			vAssert(codes[1] == http.StatusPreconditionFailed, "losing-compose-412")
		}
		vAssert(wins == 1, "upload-and-compose-on-non-existence: exactly one succeeds")
	case 4:
		wins := 0
		for i := 0; i < n; i++ {
			if codes[i] == http.StatusNoContent {
				wins++
			}
		}
		vAssert(wins == 1 && !st.exists, "exactly-one-delete-succeeds")
	}
	if rmeta != nil {
		// the reader's tuple is one that existed: base content with base generation, or a writer's
		if rmeta.Generation == 0 {
			vAssert(false, "reader-generation")
		}
		if kind == 8 {
			vAssert(len(rdata) == 2 && rdata[0] == 'S', "reader-sees-content-of-its-generation")
		} else if kind == 5 || kind == 7 {
			vAssert(len(rdata) == 1, "reader-sees-content-of-its-generation")
		} else if base != nil && rmeta.Generation == base.Generation {
			vAssert(string(rdata) == "base", "reader-sees-content-of-its-generation")
		} else {
			vAssert(len(rdata) == 1, "reader-sees-content-of-its-generation")
		}
	}
	vReach("c07-writers")
}

func init() {
	vHarnesses["H_C07_writers"] = H_C07_writers
}
