package gcsemu

// A model of the multipart/related framing for uploadType=multipart: the request body carries two
// parts (a JSON metadata document and the media bytes); mime.ParseMediaType, multipart.NewReader,
// (*multipart.Reader).NextPart, io.ReadAll on a part and json.Unmarshal of the metadata part are
// stubbed so that each part yields exactly the bytes the client put into it (which is what the real
// reader does: the CRLF before a boundary belongs to the boundary, not to the part). Everything the
// repository does with the parts afterwards runs for real. Natively the body is a real
// multipart/related stream.

import (
	"bytes"
	"encoding/json"
	"io"
	"mime/multipart"
	"net/textproto"
	"strings"
)

type vPartData struct {
	hdr    map[string]string // MIME headers of the part
	raw    []byte
	decode func(v interface{}) error
}

var (
	vMpReaders map[*multipart.Reader]*[]vPartData
	vMpParts   map[*multipart.Part]vPartData
	vMpDocs    []func(v interface{}) error
)

func stubParseMediaType(v string) (string, map[string]string, error) {
	fields := strings.Split(v, ";")
	mt := strings.ToLower(strings.TrimSpace(fields[0]))
	if mt == "" || !strings.Contains(mt, "/") {
		return "", nil, vBadJSON{}
	}
	params := map[string]string{}
	for _, f := range fields[1:] {
		kv := strings.SplitN(strings.TrimSpace(f), "=", 2)
		if len(kv) != 2 {
			return "", nil, vBadJSON{}
		}
		params[strings.ToLower(kv[0])] = strings.Trim(kv[1], "\"")
	}
	return mt, params, nil
}

func stubMultipartNewReader(r io.Reader, boundary string) *multipart.Reader {
	mr := new(multipart.Reader)
	vJSONMu.Lock()
	defer vJSONMu.Unlock()
	if vMpReaders == nil {
		vMpReaders = map[*multipart.Reader]*[]vPartData{}
	}
	var parts []vPartData
	if b, ok := r.(*vBody); ok && boundary == vBoundary {
		parts = append(parts, b.parts...)
	}
	vMpReaders[mr] = &parts
	return mr
}

func stubMultipartNextPart(mr *multipart.Reader) (*multipart.Part, error) {
	vJSONMu.Lock()
	defer vJSONMu.Unlock()
	ps := vMpReaders[mr]
	if ps == nil || len(*ps) == 0 {
		return nil, io.EOF
	}
	p := new(multipart.Part)
	p.Header = textproto.MIMEHeader{}
	for k, v := range (*ps)[0].hdr {
		p.Header.Set(k, v)
	}
	if vMpParts == nil {
		vMpParts = map[*multipart.Part]vPartData{}
	}
	vMpParts[p] = (*ps)[0]
	*ps = (*ps)[1:]
	return p, nil
}

// vPartBytes: what io.ReadAll yields for a part (a handle for the JSON document).
func vPartBytes(p *multipart.Part) []byte {
	if p == nil {
		panic("runtime error: invalid memory address or nil pointer dereference (Read on a nil *multipart.Part)")
	}
	vJSONMu.Lock()
	defer vJSONMu.Unlock()
	d := vMpParts[p]
	if d.decode != nil {
		vMpDocs = append(vMpDocs, d.decode)
		return []byte{0xfd, byte(len(vMpDocs) - 1)}
	}
	return d.raw
}

func stubJSONUnmarshal(b []byte, v interface{}) error {
	if len(b) != 2 || b[0] != 0xfd {
		return vBadJSON{}
	}
	vJSONMu.Lock()
	dec := vMpDocs[b[1]]
	vJSONMu.Unlock()
	return dec(v)
}

const vBoundary = "verif-boundary"

// vNativeMultipart builds the real multipart/related stream of a body.
func vNativeMultipart(parts []vPartData) []byte {
	var buf bytes.Buffer
	mw := multipart.NewWriter(&buf)
	mw.SetBoundary(vBoundary)
	for _, p := range parts {
		h := textproto.MIMEHeader{}
		data := p.raw
		if p.decode != nil {
			h.Set("Content-Type", "application/json")
			data = vNativeJSON(p.decode)
		} else {
			h.Set("Content-Type", "application/octet-stream")
		}
		w, _ := mw.CreatePart(h)
		w.Write(data)
	}
	mw.Close()
	return buf.Bytes()
}

var _ = json.Marshal

func vMultipartStubs() map[string]interface{} {
	return map[string]interface{}{
		"mime.ParseMediaType":               stubParseMediaType,
		"mime/multipart.NewReader":          stubMultipartNewReader,
		"(*mime/multipart.Reader).NextPart": stubMultipartNextPart,
		"encoding/json.Unmarshal":           stubJSONUnmarshal,
	}
}
