package gcsemu

// C09 (reduced claim: over the file-system model of fsmodel.go) — the file store persists
// everything and is equivalent to the memory store.
//
// H_C09_equiv runs one request program side by side on an emulator with the memory store
// and one with the file store; after every request the two responses and the two complete
// observable states are compared (everything except concrete generation numbers and
// timestamps). At a chosen request boundary the file-store emulator is replaced by a NEW
// emulator on the same directory, which must serve exactly what the old one served,
// generation and metageneration included.
// H_C09_legacy: a content file without a metadata side-car is still served.

import (
	"net/http"
	"net/url"

	cloudstorage "cloud.google.com/go/storage"
	"google.golang.org/api/storage/v1"
)

var c09Names = []string{"a.t", "a/b", "a0"} // a file next to a directory of the same stem, '.' < '/' < '0'

type c09Op struct {
	kind      int
	name, dst string
	content   []byte
	ctype     string
	notExist  bool
	prefix    string
	delim     string
	maxRes    string
}

type c09Resp struct {
	code   int
	obj    *storage.Object
	raw    []byte
	ctype  string
	list   *storage.Objects
	copied *storage.RewriteResponse
	bucket *storage.Bucket
}

func c09Pick(i int) c09Op {
	op := c09Op{kind: vChoice("op", 0, 8)}
	switch op.kind {
	case 0: // upload (optionally only if the object does not exist)
		op.name = c09Names[vChoice("name", 0, 2)]
		op.content = vNondetBytes("content", vChoice("content.len", 0, 1))
		op.ctype = []string{"", "text/x"}[vChoice("ctype", 0, 1)]
		op.notExist = vChoice("if-not-exists", 0, 1) == 1
	case 1, 2, 5, 6: // patch, delete, media GET, metadata GET
		op.name = c09Names[vChoice("name", 0, 2)]
	case 3, 4: // copy name -> dst ; compose dst from name + dst
		op.name = c09Names[vChoice("name", 0, 2)]
		op.dst = c09Names[vChoice("dst", 0, 2)]
	case 7: // list
		op.prefix = []string{"", "a", "a/", "a."}[vChoice("prefix", 0, 3)]
		op.delim = []string{"", "/"}[vChoice("delimiter", 0, 1)]
		op.maxRes = []string{"", "1"}[vChoice("maxResults", 0, 1)]
	}
	return op
}

func c09Do(g *GcsEmu, op c09Op) c09Resp {
	w := vNewRecorder()
	var r c09Resp
	switch op.kind {
	case 0:
		conds := emptyConds
		if op.notExist {
			conds = cloudstorage.Conditions{DoesNotExist: true}
		}
		m, err := g.finishUpload(vCtx(), dontNeedUrls, &storage.Object{Bucket: "b", Name: op.name, ContentType: op.ctype},
			append([]byte(nil), op.content...), "b", conds)
		if err != nil {
			r.code = httpStatusCodeOf(err)
		} else {
			cp := *m
			r.code, r.obj = http.StatusOK, &cp
		}
		return r
	case 1:
		req := &http.Request{Body: &vBody{decode: func(v interface{}) error {
			o := *v.(**storage.Object)
			o.ContentType = "text/patched"
			o.Metadata = map[string]string{"k": "v"}
			return nil
		}}}
		g.handleGcsUpdateMetadataRequest(vCtx(), dontNeedUrls, w, req, "b", op.name, emptyConds)
	case 2:
		g.handleGcsDelete(vCtx(), w, "b", op.name, emptyConds)
	case 3:
		g.handleGcsCopy(vCtx(), dontNeedUrls, w, "b", op.name+"/rewriteTo/b/b/o/"+op.dst)
	case 4:
		req := &http.Request{Body: &vBody{decode: func(v interface{}) error {
			cr := v.(*storage.ComposeRequest)
			cr.Destination = &storage.Object{ContentType: "text/composed"}
			cr.SourceObjects = []*storage.ComposeRequestSourceObjects{{Name: op.name}, {Name: op.dst}}
			return nil
		}}}
		g.handleGcsCompose(vCtx(), dontNeedUrls, w, req, "b", op.dst+"/compose", emptyConds)
	case 5:
		g.handleGcsMediaRequest(dontNeedUrls, w, "", "b", op.name)
	case 6:
		g.handleGcsMetadataRequest(dontNeedUrls, w, "b", op.name)
	case 8: // bucket metadata
		g.handleGcsMetadataRequest(dontNeedUrls, w, "b", "")
	case 7:
		q := url.Values{}
		if op.prefix != "" {
			q["prefix"] = []string{op.prefix}
		}
		if op.delim != "" {
			q["delimiter"] = []string{op.delim}
		}
		if op.maxRes != "" {
			q["maxResults"] = []string{op.maxRes}
		}
		g.handleGcsListBucket(vCtx(), dontNeedUrls, w, q, "b")
	}
	r.obj = w.object()
	r.code, r.raw, r.ctype = w.code, w.payload(), w.h.Get("Content-Type")
	for _, b := range w.all() {
		switch x := b.(type) {
		case *storage.Objects:
			r.list = x
		case *storage.Bucket:
			r.bucket = x
		case *storage.RewriteResponse:
			r.copied = x
			r.obj = x.Resource
		}
	}
	return r
}

// c09SameObj: two object resources agree in everything but generation numbers and timestamps.
func c09SameObj(a, b *storage.Object) bool {
	if (a == nil) != (b == nil) {
		return false
	}
	if a == nil {
		return true
	}
	if a.Name != b.Name || a.Bucket != b.Bucket || a.ContentType != b.ContentType || a.ContentEncoding != b.ContentEncoding ||
		a.Kind != b.Kind || a.StorageClass != b.StorageClass || len(a.Metadata) != len(b.Metadata) {
		return false
	}
	for k, v := range a.Metadata {
		if b.Metadata[k] != v {
			return false
		}
	}
	return vAnd(vAnd(a.Size == b.Size, a.Metageneration == b.Metageneration), vAnd(a.Md5Hash == b.Md5Hash, (a.Generation != 0) == (b.Generation != 0)))
}

func c09SameResp(a, b c09Resp, tag string) {
	vAssert(a.code == b.code, tag+":same-status")
	vAssert(c09SameObj(a.obj, b.obj), tag+":same-object-resource")
	vAssert(len(a.raw) == len(b.raw) && vBytesEq(a.raw, b.raw), tag+":same-body-bytes")
	if a.code == http.StatusOK {
		vAssert(a.ctype == b.ctype, tag+":same-content-type-header")
	}
	vAssert((a.bucket == nil) == (b.bucket == nil), tag+":bucket-resource-present")
	if a.bucket != nil && b.bucket != nil {
		vAssert(a.bucket.Name == b.bucket.Name && a.bucket.Kind == b.bucket.Kind && a.bucket.StorageClass == b.bucket.StorageClass, tag+":same-bucket-resource")
	}
	vAssert((a.list == nil) == (b.list == nil), tag+":listing-present")
	if a.list != nil && b.list != nil {
		vAssert(len(a.list.Items) == len(b.list.Items) && len(a.list.Prefixes) == len(b.list.Prefixes), tag+":same-listing-length")
		vAssert((a.list.NextPageToken == "") == (b.list.NextPageToken == ""), tag+":same-next-page")
		if len(a.list.Items) == len(b.list.Items) {
			for i := range a.list.Items {
				vAssert(c09SameObj(a.list.Items[i], b.list.Items[i]), tag+":same-listed-item")
			}
		}
		if len(a.list.Prefixes) == len(b.list.Prefixes) {
			for i := range a.list.Prefixes {
				vAssert(a.list.Prefixes[i] == b.list.Prefixes[i], tag+":same-listed-prefix")
			}
		}
	}
	if a.copied != nil && b.copied != nil {
		vAssert(a.copied.Done == b.copied.Done && a.copied.ObjectSize == b.copied.ObjectSize && a.copied.TotalBytesRewritten == b.copied.TotalBytesRewritten,
			tag+":same-rewrite-counts")
	}
}

// c09SameStores: every name of the universe is in the same state in both emulators.
func c09SameStores(a, b *GcsEmu, exact bool, tag string) {
	for _, n := range c09Names {
		sa, sb := vSnap(a, "b", n), vSnap(b, "b", n)
		vAssert(sa.exists == sb.exists, tag+":same-existence")
		if !sa.exists || !sb.exists {
			continue
		}
		vAssert(len(sa.content) == len(sb.content) && vBytesEq(sa.content, sb.content), tag+":same-content")
		vAssert(sa.ctype == sb.ctype && sa.md5 == sb.md5 && sa.metagen == sb.metagen && len(sa.metadata) == len(sb.metadata), tag+":same-metadata")
		if exact {
			vAssert(sa.gen == sb.gen && sa.created == sb.created, tag+":same-generation-and-creation-time")
		}
	}
}

func H_C09_equiv() {
	mem, file := vNewEmuOn(0), vNewEmuOn(1)
	// acknowledged history before the program: an uploaded object and an uploaded-then-patched one
	switch vChoice("preseeded", 0, 2) {
	case 1:
		for _, g := range []*GcsEmu{mem, file} {
			vPut(g, "b", "a.t", []byte("1"))
			vPut(g, "b", "a/b", []byte("22"))
			c09Do(g, c09Op{kind: 1, name: "a/b"})
		}
		c09SameStores(mem, file, false, "seed")
	case 2: // a single object, in a sub-directory
		for _, g := range []*GcsEmu{mem, file} {
			vPut(g, "b", "a/b", []byte("22"))
		}
	}
	k := vBound("c09-requests", 2, 3)
	restartAt := vChoice("restart.at", 0, k)
	for i := 0; i <= k; i++ {
		if i == restartAt {
			// stop (or kill between requests) and start a new emulator on the same directory
			again := vRestartOn(file)
			c09SameStores(file, again, true, "restart")
			la, lb := c09Do(file, c09Op{kind: 7}), c09Do(again, c09Op{kind: 7})
			c09SameResp(la, lb, "restart-listing")
			file = again
			vReach("c09-restart")
		}
		if i == k {
			break
		}
		op := c09Pick(i)
		ra, rb := c09Do(mem, op), c09Do(file, op)
		c09SameResp(ra, rb, "step")
		c09SameStores(mem, file, false, "after")
	}
	vReach("c09-equiv")
}

// H_C09_legacy: a content file with no side-car (written by something other than the emulator).
func H_C09_legacy() {
	g := vNewEmuOn(1)
	vPut(g, "b", "other", []byte("o"))
	content := vNondetBytes("legacy", 1)
	if vForeignFile(g, "b", "legacy.txt", content) != nil {
		vFatal("model write")
	}
	w := vNewRecorder()
	g.handleGcsMediaRequest(dontNeedUrls, w, "", "b", "legacy.txt")
	vAssert(w.code == http.StatusOK && len(w.payload()) == 1 && vBytesEq(w.payload(), content), "legacy-content-served")
	w = vNewRecorder()
	g.handleGcsMetadataRequest(dontNeedUrls, w, "b", "legacy.txt")
	o := w.object()
	vAssert(o != nil && o.Name == "legacy.txt" && o.Size == 1 && o.Generation != 0, "legacy-metadata-served")
	found := 0
	for _, it := range c10List(g, "b") {
		if it.Name == "legacy.txt" {
			found++
		}
	}
	vAssert(found == 1, "legacy-listed")
	vReach("c09-legacy")
}

func init() {
	vHarnesses["H_C09_equiv"] = H_C09_equiv
	vHarnesses["H_C09_legacy"] = H_C09_legacy
}
