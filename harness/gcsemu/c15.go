package gcsemu

// C15 — compose concatenates its sources in order; copy clones an object.

import (
	"net/http"

	"google.golang.org/api/storage/v1"
)

func c15Call(f func()) (panicked bool) {
	defer func() {
		if recover() != nil {
			panicked = true
		}
	}()
	f()
	return false
}

func H_C15_compose() {
	g := vNewEmuOn(vChoice("store", 0, 1))
	names := []string{"s0", "s1", "s2"}
	contents := []string{"a", "bc", ""}
	for i, n := range names {
		// request bodies read with io.ReadAll have spare capacity: keep that property
		buf := make([]byte, len(contents[i]), len(contents[i])+8)
		copy(buf, contents[i])
		vPut(g, "b", n, buf)
	}
	// s1 (a possible destination) carries user metadata: a compose onto it takes its metadata from the request
	g.handleGcsUpdateMetadataRequest(vCtx(), dontNeedUrls, vNewRecorder(), &http.Request{Body: &vBody{decode: func(v interface{}) error {
		(*v.(**storage.Object)).Metadata = map[string]string{"old": "meta"}
		return nil
	}}}, "b", "s1", emptyConds)
	// source list: length 0,1,2,3,32,33 with repeats; optionally a missing source; destination may be a source
	nsrc := []int{0, 1, 2, 3, 32, 33}[vChoice("nsources", 0, 5)]
	var srcs []*storage.ComposeRequestSourceObjects
	want := ""
	missing := false
	for i := 0; i < nsrc; i++ {
		k := 0
		if i < 3 {
			k = vChoice("source", 0, 3) // 3 = a name that does not exist
		} else {
			k = i % 3
		}
		if k == 3 {
			srcs = append(srcs, &storage.ComposeRequestSourceObjects{Name: "nosuch"})
			missing = true
			continue
		}
		srcs = append(srcs, &storage.ComposeRequestSourceObjects{Name: names[k]})
		want += contents[k]
	}
	dst := []string{"dst", "s0", "s1"}[vChoice("destination", 0, 2)]
	haveDest := vChoice("destination.meta", 0, 1) == 1
	before := []vObjState{vSnap(g, "b", "s0"), vSnap(g, "b", "s1"), vSnap(g, "b", "s2"), vSnap(g, "b", "dst")}
	w := vNewRecorder()
	r := &http.Request{Body: &vBody{decode: func(v interface{}) error {
		req := v.(*storage.ComposeRequest)
		if haveDest {
			req.Destination = &storage.Object{ContentType: "text/composed"}
		}
		req.SourceObjects = srcs
		return nil
	}}}
	panicked := c15Call(func() { g.handleGcsCompose(vCtx(), dontNeedUrls, w, r, "b", dst+"/compose", emptyConds) })
	vAssert(!panicked, "compose-does-not-panic")
	if panicked {
		return
	}
	after := []vObjState{vSnap(g, "b", "s0"), vSnap(g, "b", "s1"), vSnap(g, "b", "s2"), vSnap(g, "b", "dst")}
	unchanged := func(except string) {
		for i, n := range []string{"s0", "s1", "s2", "dst"} {
			if n != except {
				vAssert(vSameState(before[i], after[i]), "compose:other-objects-untouched")
			}
		}
	}
	switch {
	case nsrc > 32:
		vAssert(w.code == http.StatusBadRequest, "compose:more-than-32-sources-400")
		unchanged("")
		vReach("c15-too-many")
	case !haveDest:
		// no destination resource: refused, nothing changes
		vAssert(w.code >= 400 && w.code < 500, "compose:missing-destination-4xx")
		unchanged("")
	case nsrc == 0:
		// zero sources is outside the stated 1..32: only "sources untouched" is asserted
		unchanged(dst)
	case missing:
		vAssert(w.code == http.StatusNotFound, "compose:missing-source-404")
		unchanged("")
		vReach("c15-missing")
	default:
		vAssert(w.code == http.StatusOK, "compose:ok")
		d := vSnap(g, "b", dst)
		vAssert(d.exists && string(d.content) == want, "compose:destination-is-the-concatenation-in-request-order")
		vAssert(d.ctype == "text/composed", "compose:destination-metadata-from-request")
		vAssert(len(d.metadata) == 0, "compose:user-metadata-from-request-not-from-the-overwritten-object")
		unchanged(dst)
		if o := w.object(); o != nil {
			vAssert(o.Size == uint64(len(want)), "compose:response-size")
		}
		// a later compose with the same first source must not disturb this destination
		if dst == "dst" && nsrc >= 2 && nsrc <= 3 {
			w2 := vNewRecorder()
			r2 := &http.Request{Body: &vBody{decode: func(v interface{}) error {
				req := v.(*storage.ComposeRequest)
				req.Destination = &storage.Object{}
				req.SourceObjects = []*storage.ComposeRequestSourceObjects{{Name: srcs[0].Name}, {Name: "s1"}, {Name: "s1"}}
				return nil
			}}}
			g.handleGcsCompose(vCtx(), dontNeedUrls, w2, r2, "b", "dst2/compose", emptyConds)
			vAssert(w2.code == http.StatusOK, "compose:second-ok")
			d2 := vSnap(g, "b", dst)
			vAssert(string(d2.content) == want, "compose:earlier-destination-untouched-by-a-later-compose")
			for i, n := range []string{"s0", "s1", "s2"} {
				vAssert(vSameState(before[i], vSnap(g, "b", n)), "compose:sources-untouched-after-two-composes")
			}
		}
		// the composed object is itself a valid source (also when it is empty)
		if dst == "dst" {
			w3 := vNewRecorder()
			r3 := &http.Request{Body: &vBody{decode: func(v interface{}) error {
				req := v.(*storage.ComposeRequest)
				req.Destination = &storage.Object{}
				req.SourceObjects = []*storage.ComposeRequestSourceObjects{{Name: "dst"}, {Name: "s0"}}
				return nil
			}}}
			g.handleGcsCompose(vCtx(), dontNeedUrls, w3, r3, "b", "dst3/compose", emptyConds)
			vAssert(w3.code == http.StatusOK, "compose:a-composed-object-is-a-valid-source")
			vAssert(string(vSnap(g, "b", "dst3").content) == want+"a", "compose:of-a-composed-source")
		}
		vReach("c15-compose-ok")
	}
}

func H_C15_copy() {
	g := vNewEmuOn(vChoice("store", 0, 1))
	meta := vPut(g, "b", "src", []byte("payload"))
	// user-settable metadata on the source
	w0 := vNewRecorder()
	g.handleGcsUpdateMetadataRequest(vCtx(), dontNeedUrls, w0, &http.Request{Body: &vBody{decode: func(v interface{}) error {
		o := *v.(**storage.Object)
		o.ContentType = "text/src"
		o.Metadata = map[string]string{"k": "v"}
		return nil
	}}}, "b", "src", emptyConds)
	srcBefore := vSnap(g, "b", "src")
	b2 := []string{"b", "b2"}[vChoice("dst.bucket", 0, 1)]
	dst := []string{"x", "dir/x", "a/o/b", "a b", "a.b", "src", "a+b", "q%2Fs", "50%"}[vChoice("dst.name", 0, 8)]
	path := "src/rewriteTo/b/" + b2 + "/o/" + dst
	srcName := "src"
	switch vChoice("shape", 0, 2) {
	case 1: // missing source
		path = "nosuch/rewriteTo/b/" + b2 + "/o/" + dst
		srcName = "nosuch"
	case 2: // destination part without "/o/"
		path = "src/rewriteTo/b/" + b2
	}
	w := vNewRecorder()
	panicked := c15Call(func() { g.handleGcsCopy(vCtx(), dontNeedUrls, w, "b", path) })
	vAssert(!panicked, "copy-does-not-panic")
	if panicked {
		return
	}
	if path == "src/rewriteTo/b/"+b2 {
		vAssert(w.code == http.StatusBadRequest, "copy:malformed-path-400")
		return
	}
	if srcName == "nosuch" {
		vAssert(w.code == http.StatusNotFound, "copy:missing-source-404")
		vAssert(!vSnap(g, b2, dst).exists || (b2 == "b" && dst == "src"), "copy:missing-source-changes-nothing")
		vReach("c15-copy-missing")
		return
	}
	vAssert(w.code == http.StatusOK, "copy:ok")
	d := vSnap(g, b2, dst)
	vAssert(d.exists, "copy:destination-exists-under-the-requested-name")
	if d.exists {
		vAssert(string(d.content) == "payload" && d.md5 == meta.Md5Hash, "copy:same-content-and-md5")
		vAssert(d.ctype == "text/src" && d.metadata["k"] == "v", "copy:user-metadata-copied")
	}
	var rr *storage.RewriteResponse
	for _, b := range w.all() {
		if x, ok := b.(*storage.RewriteResponse); ok {
			rr = x
		}
	}
	vAssert(rr != nil && rr.Done && rr.Resource != nil, "copy:rewrite-response")
	if rr != nil && rr.Resource != nil {
		vAssert(rr.ObjectSize == 7 && rr.TotalBytesRewritten == 7 && rr.Resource.Name == dst, "copy:reports-resource-and-byte-counts")
	}
	if !(b2 == "b" && dst == "src") {
		vAssert(vSameState(srcBefore, vSnap(g, "b", "src")), "copy:source-untouched")
	}
	vReach("c15-copy-ok")
}

// H_C15_copy_race: a copy overlapping another request on its destination (a delete, or an upload
// of different content), all interleavings: the copy of an existing source answers 200 and
// describes the object it created, whatever the other request did before or afterwards.
func H_C15_copy_race() {
	g := vNewEmu()
	src := vPut(g, "b", "src", []byte("payload"))
	rival := vChoice("rival", 0, 1)
	if vChoice("dst-exists", 0, 1) == 1 {
		vPut(g, "b", "dst", []byte("old"))
	}
	w := vNewRecorder()
	vGo(func() { g.handleGcsCopy(vCtx(), dontNeedUrls, w, "b", "src/rewriteTo/b/b/o/dst") })
	vGo(func() {
		if rival == 0 {
			g.handleGcsDelete(vCtx(), vNewRecorder(), "b", "dst", emptyConds)
		} else {
			g.finishUpload(vCtx(), dontNeedUrls, &storage.Object{Bucket: "b", Name: "dst"}, []byte("rival-bytes"), "b", emptyConds)
		}
	})
	vJoin()
	vAssert(w.code == http.StatusOK, "copy-race:existing-source-gives-200")
	var rr *storage.RewriteResponse
	for _, b := range w.all() {
		if x, ok := b.(*storage.RewriteResponse); ok {
			rr = x
		}
	}
	vAssert(rr != nil && rr.Resource != nil, "copy-race:rewrite-response")
	if rr != nil && rr.Resource != nil {
		vAssert(rr.ObjectSize == 7 && rr.TotalBytesRewritten == 7 && rr.Resource.Size == 7 && rr.Resource.Md5Hash == src.Md5Hash,
			"copy-race:reports-the-copied-object")
	}
	vReach("c15-copy-race")
}

// H_C15_compose_race: a compose dst = dst + src overlapping a copy onto dst, all interleavings.
// Both succeed; the result is one of the two serial outcomes: the copy's content (copy last) or the
// copy's content followed by src (compose last). The old destination content never survives.
func H_C15_compose_race() {
	g := vNewEmu()
	vPut(g, "b", "src", []byte("x"))
	vPut(g, "b", "other", []byte("C"))
	vPut(g, "b", "dst", []byte("old"))
	wc, wp := vNewRecorder(), vNewRecorder()
	vGo(func() {
		r := &http.Request{Body: &vBody{decode: func(v interface{}) error {
			req := v.(*storage.ComposeRequest)
			req.Destination = &storage.Object{}
			req.SourceObjects = []*storage.ComposeRequestSourceObjects{{Name: "dst"}, {Name: "src"}}
			return nil
		}}}
		g.handleGcsCompose(vCtx(), dontNeedUrls, wc, r, "b", "dst/compose", emptyConds)
	})
	vGo(func() { g.handleGcsCopy(vCtx(), dontNeedUrls, wp, "b", "other/rewriteTo/b/b/o/dst") })
	vJoin()
	vAssert(wc.code == http.StatusOK && wp.code == http.StatusOK, "compose-race:both-succeed")
	st := vSnap(g, "b", "dst")
	vAssert(st.exists && (string(st.content) == "C" || string(st.content) == "Cx"), "compose-race:result-is-a-serial-outcome")
	vReach("c15-compose-race")
}

func init() {
	vHarnesses["H_C15_compose_race"] = H_C15_compose_race
	vHarnesses["H_C15_copy_race"] = H_C15_copy_race
	vHarnesses["H_C15_compose"] = H_C15_compose
	vHarnesses["H_C15_copy"] = H_C15_copy
}
