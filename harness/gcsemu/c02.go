package gcsemu

// C02 — what is uploaded is what is served, until overwritten or deleted.

import (
	"crypto/md5"
	"encoding/base64"
	"net/http"
	"net/url"

	"google.golang.org/api/storage/v1"
)

// ---- (1) Content-Range parsing: the image used as the contract of (2) ----

func H_C02_range() {
	n := vChoice("tail.len", 0, vBound("range-tail", 5, 6))
	tail := vNondetBytes("tail", n)
	for _, b := range tail {
		vAssume(vOr(vOr(b == '0', b == '7'), vOr(vOr(b == '-', b == '/'), vOr(b == '*', b == '+'))))
	}
	hdr := "bytes " + string(tail)
	panicked := c15Call(func() {
		r := parseByteRange(hdr)
		if r != nil {
			both := vOr(vAnd(r.lo == -1, r.hi == -1), vAnd(r.lo >= 0, r.hi >= 0))
			vAssert(both, "parsed-range: lo and hi are both absent (-1) or both non-negative")
			vReach("c02-range-ok")
		} else {
			vReach("c02-range-nil")
		}
	})
	vAssert(!panicked, "parseByteRange-does-not-panic")
	// the repository's own vectors
	if n == 0 {
		r := parseByteRange("bytes 0-9/100")
		vAssert(r != nil && r.lo == 0 && r.hi == 9 && r.sz == 100, "vector-0-9/100")
		r = parseByteRange("bytes */5")
		vAssert(r != nil && r.lo == -1 && r.hi == -1 && r.sz == 5, "vector-*/5")
		r = parseByteRange("bytes 3-4/*")
		vAssert(r != nil && r.lo == 3 && r.hi == 4 && r.sz == -1, "vector-3-4/*")
		vAssert(parseByteRange("octets 0-1/2") == nil, "vector-bad-unit")
	}
}

// ---- (2) resumable assembly with arbitrary ranges ----

var c02Ranges []*byteRange

// stubParseByteRangeMaybe replaces parseByteRange: a prepared symbolic range if the harness queued one,
// the real parser otherwise.
func stubParseByteRangeMaybe(in string) *byteRange {
	if len(c02Ranges) == 0 {
		return parseByteRange(in)
	}
	r := c02Ranges[0]
	c02Ranges = c02Ranges[1:]
	return r
}

func H_C02_resumable() {
	g := vNewEmuOn(vChoice("store", 0, 1))
	vPut(g, "b", "neighbour", []byte("n"))
	nb := vSnap(g, "b", "neighbour")
	// start a session
	w := vNewRecorder()
	start := &http.Request{Form: url.Values{"uploadType": []string{"resumable"}}, Header: http.Header{}, Body: &vBody{decode: func(v interface{}) error {
		o := v.(*storage.Object)
		o.Name = "o"
		o.ContentType = "text/plain"
		return nil
	}}}
	g.handleGcsNewObject(vCtx(), dontNeedUrls, w, start, "b", emptyConds)
	vAssert(w.code == http.StatusOK, "session-started")
	id := "1"
	// chunks
	var model []byte
	done := false
	k := vBound("chunks", 2, 3)
	for c := 0; c < k && !done; c++ {
		lo, hi, sz := vNondetInt64("range.lo"), vNondetInt64("range.hi"), vNondetInt64("range.sz")
		vAssume(vOr(vAnd(lo == -1, hi == -1), vAnd(lo >= 0, hi >= 0))) // the image of parseByteRange (H_C02_range)
		body := vNondetBytes("chunk", vChoice("chunk.len", 0, 2))
		c02Ranges = []*byteRange{{lo: lo, hi: hi, sz: sz}}
		w := vNewRecorder()
		r := &http.Request{Header: http.Header{"Content-Range": []string{"bytes x"}}, Body: &vBody{raw: body}}
		g.handleGcsNewObjectResume(vCtx(), dontNeedUrls, w, r, id)
		// reference model of the protocol
		bad := false
		if lo == -1 {
			bad = len(body) != 0
		} else {
			bad = vOr(int64(len(body)) != hi+1-lo, lo > int64(len(model)))
		}
		if bad {
			vAssert(w.code == http.StatusBadRequest, "inconsistent-chunk-400")
			vAssert(!vSnap(g, "b", "o").exists, "rejected-chunk-stores-nothing")
			continue
		}
		if lo != -1 {
			keep := int(vConcretizeInt(int(lo)))
			model = append(append([]byte{}, model[:keep]...), body...)
		}
		fin := vAnd(sz >= 0, int64(len(model)) >= sz)
		if fin {
			vAssert(w.code == http.StatusOK, "final-chunk-200")
			done = true
		} else {
			vAssert(w.code == http.StatusPermanentRedirect, "incomplete-308")
			vAssert(!vSnap(g, "b", "o").exists, "incomplete-upload-not-visible")
		}
	}
	if done {
		st := vSnap(g, "b", "o")
		vAssert(st.exists && len(st.content) == len(model), "stored-size")
		if st.exists && len(st.content) == len(model) {
			vAssert(vBytesEq(st.content, model), "stored-bytes-equal-uploaded-bytes")
		}
		vAssert(st.ctype == "text/plain", "content-type-as-sent")
		// a finished session id is gone
		w := vNewRecorder()
		c02Ranges = []*byteRange{{lo: -1, hi: -1, sz: -1}}
		g.handleGcsNewObjectResume(vCtx(), dontNeedUrls, w, &http.Request{Header: http.Header{"Content-Range": []string{"bytes x"}}, Body: &vBody{}}, id)
		vAssert(w.code == http.StatusNotFound, "finished-session-404")
		vReach("c02-resumable-done")
	}
	vAssert(vSameState(nb, vSnap(g, "b", "neighbour")), "neighbour-untouched")
}

// ---- (3) simple upload, the three download URL forms, MD5 check, overwrite, delete ----

func c02Get(g *GcsEmu, path, query string) *vRecorder {
	w := vNewRecorder()
	g.Handler(w, &http.Request{Method: "GET", URL: &url.URL{Path: path, RawQuery: query}, Header: http.Header{}, Host: "h"})
	return w
}

func H_C02_media() {
	g := vNewEmuOn(vChoice("store", 0, 1))
	name := []string{"o", "dir/sub/o.txt", "a b.c", "r%2Fs.csv", "50%25+off"}[vChoice("name", 0, 4)] // the last two hold literal percent-escapes and a plus
	payload := []string{"", "x", "\x00\xffbinary"}[vChoice("payload", 0, 2)]
	vPut(g, "b", "neighbour", []byte("n"))
	vPut(g, "b2", name, []byte("elsewhere"))
	nb, nb2 := vSnap(g, "b", "neighbour"), vSnap(g, "b2", name)
	// upload through the real POST handler
	w := vNewRecorder()
	post := &http.Request{Method: "POST", URL: &url.URL{Path: "/upload/storage/v1/b/b/o", RawQuery: "uploadType=media&name=" + url.QueryEscape(name)},
		Header: http.Header{"Content-Type": []string{"text/mine"}}, Body: &vBody{raw: []byte(payload)}, Host: "h"}
	if vChoice("gzip-request-body", 0, 1) == 1 {
		// the client compressed the request body; the wrapper in front of the handler undoes that
		post.Header.Set("Content-Encoding", "gzip")
		post.Body = &vBody{raw: []byte(payload), gz: true}
		GzipRequestHandler(g.Handler)(w, post)
	} else {
		g.Handler(w, post)
	}
	vAssert(w.code == http.StatusOK, "media-upload-ok")
	meta := w.object()
	vAssert(meta != nil && meta.Size == uint64(len(payload)) && meta.ContentType == "text/mine" && meta.Name == name, "upload-response-metadata")
	// the three download forms
	esc := url.PathEscape(name)
	_ = esc
	for _, f := range []struct{ path, query string }{
		{"/storage/v1/b/b/o/" + name, "alt=media"},
		{"/download/storage/v1/b/b/o/" + name, "alt=media"},
		{"/b/" + name, ""},
	} {
		d := c02Get(g, f.path, f.query)
		vAssert(d.code == http.StatusOK && string(d.raw) == payload, "download-returns-uploaded-bytes")
		vAssert(d.h.Get("Content-Type") == "text/mine", "download-content-type")
		vAssert(d.h.Get("Content-Encoding") == "", "download-of-plain-bytes-is-not-labelled-compressed")
	}
	md := c02Get(g, "/storage/v1/b/b/o/"+name, "")
	mo := md.object()
	vAssert(mo != nil && mo.Size == uint64(len(payload)) && meta != nil && mo.Md5Hash == meta.Md5Hash, "metadata-matches-upload")
	// an upload whose declared MD5 does not match is rejected and leaves the object intact
	before := vSnap(g, "b", name)
	_, err := g.finishUpload(vCtx(), dontNeedUrls, &storage.Object{Bucket: "b", Name: name, Md5Hash: "1B2M2Y8AsgTpgAmY7PhCfg=="}, []byte("different"), "b", emptyConds)
	vAssert(err != nil && httpStatusCodeOf(err) == http.StatusBadRequest, "md5-mismatch-400")
	vAssert(vSameState(before, vSnap(g, "b", name)), "md5-mismatch-leaves-previous-object")
	// overwrite replaces the whole object
	vPut(g, "b", name, []byte("second"))
	d := c02Get(g, "/storage/v1/b/b/o/"+name, "alt=media")
	vAssert(string(d.raw) == "second", "overwrite-replaces")
	// delete: 404 from metadata, download and listing
	dw := vNewRecorder()
	g.Handler(dw, &http.Request{Method: "DELETE", URL: &url.URL{Path: "/storage/v1/b/b/o/" + name}, Header: http.Header{}, Host: "h"})
	vAssert(dw.code == http.StatusNoContent, "delete-ok")
	vAssert(c02Get(g, "/storage/v1/b/b/o/"+name, "").code == http.StatusNotFound, "deleted-metadata-404")
	vAssert(c02Get(g, "/storage/v1/b/b/o/"+name, "alt=media").code == http.StatusNotFound, "deleted-download-404")
	for _, it := range c10List(g, "b") {
		vAssert(it.Name != name, "deleted-not-listed")
	}
	vAssert(vSameState(nb, vSnap(g, "b", "neighbour")) && vSameState(nb2, vSnap(g, "b2", name)), "other-names-and-buckets-untouched")
	vReach("c02-media")
}

// H_C02_multipart: a multipart/related upload (metadata document + media part) with an arbitrary
// payload of 0..3 bytes: stored, sized, hashed and served byte for byte; a declared MD5 that
// matches is accepted, one that does not is rejected and leaves the previous object intact.
func H_C02_multipart() {
	g := vNewEmuOn(vChoice("store", 0, 1))
	vPut(g, "b", "o", []byte("previous"))
	before := vSnap(g, "b", "o")
	payload := vNondetBytes("payload", vChoice("payload.len", 0, 3))
	sum := md5.Sum(payload)
	declared := ""
	kind := vChoice("declared-md5", 0, 2)
	switch kind {
	case 1:
		declared = base64.StdEncoding.EncodeToString(sum[:])
	case 2:
		other := md5.Sum([]byte("something else"))
		declared = base64.StdEncoding.EncodeToString(other[:])
	}
	w := vNewRecorder()
	req := &http.Request{Form: url.Values{"uploadType": []string{"multipart"}},
		Header: http.Header{"Content-Type": []string{"multipart/related; boundary=" + vBoundary}},
		Body: &vBody{parts: []vPartData{
			{decode: func(v interface{}) error {
				o := v.(*storage.Object)
				o.Name, o.ContentType, o.Md5Hash = "o", "text/mp", declared
				return nil
			}},
			{raw: payload}}}}
	g.handleGcsNewObject(vCtx(), dontNeedUrls, w, req, "b", emptyConds)
	other := md5.Sum([]byte("something else"))
	mismatch := vAnd(kind == 2, vNot(vBytesEq(sum[:], other[:])))
	if w.code != http.StatusOK {
		vAssert(mismatch, "multipart:rejected-only-for-an-md5-mismatch")
		vAssert(w.code == http.StatusBadRequest, "multipart:md5-mismatch-400")
		vAssert(vSameState(before, vSnap(g, "b", "o")), "multipart:md5-mismatch-leaves-previous-object")
		vReach("c02-multipart-rejected")
		return
	}
	vAssert(vNot(mismatch), "multipart:md5-mismatch-is-rejected")
	meta := w.object()
	vAssert(meta != nil && meta.Size == uint64(len(payload)) && meta.ContentType == "text/mp" && meta.Name == "o", "multipart:upload-response-metadata")
	st := vSnap(g, "b", "o")
	vAssert(st.exists && len(st.content) == len(payload) && vBytesEq(st.content, payload), "multipart:stored-bytes-equal-the-media-part")
	vAssert(st.md5 == base64.StdEncoding.EncodeToString(sum[:]), "multipart:md5-of-the-media-part")
	d := c02Get(g, "/storage/v1/b/b/o/o", "alt=media")
	vAssert(d.code == http.StatusOK && len(d.payload()) == len(payload) && vBytesEq(d.payload(), payload), "multipart:download-returns-uploaded-bytes")
	vReach("c02-multipart")
}

// H_C02_resumable_md5: a resumable session that declared an MD5. A final chunk whose bytes do not
// hash to it is rejected and stays rejected when the client asks again; nothing becomes visible.
func H_C02_resumable_md5() {
	g := vNewEmuOn(vChoice("store", 0, 1))
	good := md5.Sum([]byte("ab"))
	declared := base64.StdEncoding.EncodeToString(good[:])
	w := vNewRecorder()
	start := &http.Request{Form: url.Values{"uploadType": []string{"resumable"}}, Header: http.Header{}, Body: &vBody{decode: func(v interface{}) error {
		o := v.(*storage.Object)
		o.Name = "o"
		o.Md5Hash = declared
		return nil
	}}}
	g.handleGcsNewObject(vCtx(), dontNeedUrls, w, start, "b", emptyConds)
	vAssert(w.code == http.StatusOK, "session-started")
	body := vNondetBytes("chunk", 2)
	sum := md5.Sum(body)
	matches := vBytesEq(sum[:], good[:])
	c02Ranges = []*byteRange{{lo: 0, hi: 1, sz: 2}}
	w1 := vNewRecorder()
	g.handleGcsNewObjectResume(vCtx(), dontNeedUrls, w1, &http.Request{Header: http.Header{"Content-Range": []string{"bytes x"}}, Body: &vBody{raw: body}}, "1")
	if matches {
		vAssert(w1.code == http.StatusOK, "matching-md5-accepted")
		vReach("c02-md5-ok")
		return
	}
	vAssert(w1.code == http.StatusBadRequest, "md5-mismatch-400")
	vAssert(!vSnap(g, "b", "o").exists, "md5-mismatch-stores-nothing")
	// the client asks again: a status query that also finalises, or the same range re-sent
	w2 := vNewRecorder()
	if vChoice("retry", 0, 1) == 0 {
		c02Ranges = []*byteRange{{lo: -1, hi: -1, sz: 2}}
		g.handleGcsNewObjectResume(vCtx(), dontNeedUrls, w2, &http.Request{Header: http.Header{"Content-Range": []string{"bytes x"}}, Body: &vBody{}}, "1")
	} else {
		c02Ranges = []*byteRange{{lo: 0, hi: 1, sz: 2}}
		g.handleGcsNewObjectResume(vCtx(), dontNeedUrls, w2, &http.Request{Header: http.Header{"Content-Range": []string{"bytes x"}}, Body: &vBody{raw: body}}, "1")
	}
	vAssert(w2.code != http.StatusOK, "rejected-bytes-stay-rejected")
	vAssert(!vSnap(g, "b", "o").exists, "rejected-bytes-never-become-visible")
	vReach("c02-md5-mismatch")
}

func init() {
	vHarnesses["H_C02_resumable_md5"] = H_C02_resumable_md5
	vHarnesses["H_C02_range"] = H_C02_range
	vHarnesses["H_C02_resumable"] = H_C02_resumable
	vHarnesses["H_C02_media"] = H_C02_media
	vHarnesses["H_C02_multipart"] = H_C02_multipart
}
