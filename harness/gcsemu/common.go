package gcsemu

// Common harness support for storage/gcsemu: environment stubs, a recording
// ResponseWriter, request bodies that carry a decoded-JSON "patch", and state
// snapshots of the store.

import (
	"bufio"
	"bytes"
	"compress/gzip"
	"context"
	"encoding/json"
	"io"
	"mime/multipart"
	"net/http"
	"sync"
	"time"

	"github.com/bluele/gcache"
	"github.com/fullstorydev/emulators/storage/gcsutil"
	"google.golang.org/api/storage/v1"
)

func vStubs() map[string]interface{} {
	m := vBaseStubs()
	for k, v := range vFsStubs() {
		m[k] = v
	}
	for k, v := range vFileStubs() {
		m[k] = v
	}
	for k, v := range vMultipartStubs() {
		m[k] = v
	}
	for k, v := range vBatchStubs() {
		m[k] = v
	}
	return m
}

func vBaseStubs() map[string]interface{} {
	return map[string]interface{}{
		"fmt.Errorf":                                                        stubFmtErrorf,
		"encoding/json.NewEncoder":                                          stubNewEncoder,
		"(*encoding/json.Encoder).Encode":                                   stubEncode,
		"(*encoding/json.Encoder).SetIndent":                                stubSetIndent,
		"encoding/json.NewDecoder":                                          stubNewDecoder,
		"(*encoding/json.Decoder).Decode":                                   stubDecode,
		"io.ReadAll":                                                        stubReadAll,
		"compress/gzip.NewReader":                                           stubGzipNewReader,
		"(*github.com/bluele/gcache.LRUCache).Set":                          stubCacheSet,
		"(*github.com/bluele/gcache.LRUCache).GetIFPresent":                 stubCacheGetIFPresent,
		"(*github.com/bluele/gcache.LRUCache).Remove":                       stubCacheRemove,
		"github.com/fullstorydev/emulators/storage/gcsemu.parseByteRange":   stubParseByteRangeMaybe,
		"github.com/fullstorydev/emulators/storage/gcsutil.EncodePageToken": stubEncodePageToken,
		"github.com/fullstorydev/emulators/storage/gcsutil.DecodePageToken": stubDecodePageToken,
	}
}

type vPlainErr struct{ wrapped error }

func (e *vPlainErr) Error() string { return "error" }
func (e *vPlainErr) Unwrap() error { return e.wrapped }

func stubFmtErrorf(format string, a ...interface{}) error {
	var w error
	for _, x := range a {
		if e, ok := x.(error); ok {
			w = e
		}
	}
	return &vPlainErr{wrapped: w}
}

// ---- JSON: encode records the Go value; decode applies the body's patch ----

var vEncW map[*json.Encoder]io.Writer
var vDecR map[*json.Decoder]io.Reader
var vJSONMu sync.Mutex // the handle tables are harness state

func stubNewEncoder(w io.Writer) *json.Encoder {
	e := new(json.Encoder)
	vJSONMu.Lock()
	defer vJSONMu.Unlock()
	if vEncW == nil {
		vEncW = map[*json.Encoder]io.Writer{}
	}
	vEncW[e] = w
	return e
}
func stubSetIndent(e *json.Encoder, prefix, indent string) {}
func stubEncode(e *json.Encoder, v interface{}) error {
	vJSONMu.Lock()
	w := vEncW[e]
	vJSONMu.Unlock()
	if rec, ok := w.(*vRecorder); ok {
		rec.bodies = append(rec.bodies, v)
		if rec.code == 0 {
			rec.code = http.StatusOK
		}
	}
	return nil
}
func stubNewDecoder(r io.Reader) *json.Decoder {
	d := new(json.Decoder)
	vJSONMu.Lock()
	defer vJSONMu.Unlock()
	if vDecR == nil {
		vDecR = map[*json.Decoder]io.Reader{}
	}
	vDecR[d] = r
	return d
}

type vBadJSON struct{}

func (vBadJSON) Error() string { return "invalid character" }

func stubDecode(d *json.Decoder, v interface{}) error {
	vJSONMu.Lock()
	rd := vDecR[d]
	vJSONMu.Unlock()
	if br, isb := rd.(*bytes.Reader); isb {
		return vDecodeMetaFile(br, v)
	}
	b, ok := rd.(*vBody)
	if zr, isz := rd.(*gzip.Reader); isz {
		vJSONMu.Lock()
		b = vGzBody[zr]
		vJSONMu.Unlock()
		ok = b != nil
	}
	if !ok || b.decode == nil {
		return vBadJSON{}
	}
	return b.decode(v)
}
func stubReadAll(r io.Reader) ([]byte, error) {
	if b, ok := r.(*vBody); ok {
		return b.raw, nil
	}
	if p, ok := r.(*multipart.Part); ok {
		return vPartBytes(p), nil
	}
	if b, ok := r.(*bufio.Reader); ok {
		return vReadAllBufio(b), nil
	}
	if zr, ok := r.(*gzip.Reader); ok {
		vJSONMu.Lock()
		b := vGzBody[zr]
		vJSONMu.Unlock()
		if b != nil {
			return b.raw, nil
		}
	}
	return nil, nil
}

// vBody is a request body: raw bytes for media uploads, a decode function for JSON bodies.
type vBody struct {
	wire   []byte // native replay only: the bytes on the wire
	built  bool
	off    int
	parts  []vPartData // a multipart/related body (boundary vBoundary)
	gz     bool        // the wire bytes are a gzip stream of raw / of the JSON document
	raw    []byte
	decode func(v interface{}) error
}

func (b *vBody) Read(p []byte) (int, error) {
	if vSymbolic() {
		return 0, io.EOF // decoders and io.ReadAll are stubbed: nothing reads the wire bytes
	}
	if !b.built {
		b.wire, b.built = vNativeBytes(b), true
	}
	if b.off >= len(b.wire) {
		return 0, io.EOF
	}
	n := copy(p, b.wire[b.off:])
	b.off += n
	return n, nil
}
func (b *vBody) Close() error { return nil }

// ---- page tokens: an injective pair (the proto+base64 round trip is assumed) ----

func stubEncodePageToken(last string) string { return "tok:" + last }
func stubDecodePageToken(tok string) (string, error) {
	if len(tok) < 4 || tok[:4] != "tok:" {
		return "", vBadJSON{}
	}
	return tok[4:], nil
}

// ---- upload-id cache: a map ----

var vCache map[interface{}]interface{}
var vCacheMu sync.Mutex // gcache is safe for concurrent use

func stubCacheSet(c *gcache.LRUCache, key, value interface{}) error {
	vCacheMu.Lock()
	defer vCacheMu.Unlock()
	if vCache == nil {
		vCache = map[interface{}]interface{}{}
	}
	vCache[key] = value
	return nil
}
func stubCacheGetIFPresent(c *gcache.LRUCache, key interface{}) (interface{}, error) {
	vCacheMu.Lock()
	defer vCacheMu.Unlock()
	if v, ok := vCache[key]; ok {
		return v, nil
	}
	return nil, nil
}
func stubCacheRemove(c *gcache.LRUCache, key interface{}) bool {
	vCacheMu.Lock()
	defer vCacheMu.Unlock()
	_, ok := vCache[key]
	delete(vCache, key)
	return ok
}

// ---- response recorder ----

type vRecorder struct {
	decoded bool
	h       http.Header
	code    int
	bodies  []interface{}
	raw     []byte
	writes  int
}

func vNewRecorder() *vRecorder { return &vRecorder{h: http.Header{}} }

func (r *vRecorder) Header() http.Header { return r.h }
func (r *vRecorder) Write(b []byte) (int, error) {
	if r.code == 0 {
		r.code = http.StatusOK
	}
	r.raw = append(r.raw, b...)
	r.writes++
	return len(b), nil
}
func (r *vRecorder) WriteHeader(c int) {
	if r.code == 0 {
		r.code = c
	}
}

// all returns the values written as JSON responses (native replay: decoded from the real JSON).
func (r *vRecorder) all() []interface{} {
	if !vSymbolic() && !r.decoded {
		r.decoded = true
		vNativeDecode(r)
	}
	return r.bodies
}

// payload returns the non-JSON bytes written (a media download).
func (r *vRecorder) payload() []byte {
	r.all()
	return r.raw
}

// object returns the *storage.Object written as the JSON response, if any.
func (r *vRecorder) object() *storage.Object {
	for _, b := range r.all() {
		switch o := b.(type) {
		case *storage.Object:
			return o
		case **storage.Object:
			return *o
		}
	}
	return nil
}

// errorBody reports whether an API error envelope was written.
func (r *vRecorder) errorBody() bool {
	return len(r.all()) == 1 && r.object() == nil && r.code >= 300
}

// ---- context ----

type vTestCtx struct{ done chan struct{} }

func (c *vTestCtx) Deadline() (time.Time, bool) { return time.Time{}, false }
func (c *vTestCtx) Done() <-chan struct{}       { return c.done }
func (c *vTestCtx) Err() error {
	select {
	case <-c.done:
		return context.Canceled
	default:
		return nil
	}
}
func (c *vTestCtx) Value(any) any { return nil }

func vCtx() context.Context { return &vTestCtx{done: make(chan struct{})} }

// ---- emulator construction and state snapshots ----

func vNewEmu() *GcsEmu {
	if !vSymbolic() {
		return &GcsEmu{store: NewMemStore(), locks: gcsutil.NewTransientLockMap(), uploadIds: gcache.New(1024).LRU().Build(),
			log: func(error, string, ...interface{}) {}}
	}
	return &GcsEmu{store: NewMemStore(), locks: gcsutil.NewTransientLockMap(), uploadIds: new(gcache.LRUCache),
		log: func(error, string, ...interface{}) {}}
}

type vObjState struct {
	exists   bool
	gen      int64
	metagen  int64
	content  []byte
	ctype    string
	md5      string
	metadata map[string]string
	created  string
}

func vSnap(g *GcsEmu, bucket, name string) vObjState {
	meta, data, err := g.store.Get(dontNeedUrls, bucket, name)
	if err != nil || meta == nil {
		return vObjState{}
	}
	return vObjState{exists: true, gen: meta.Generation, metagen: meta.Metageneration, content: data, ctype: meta.ContentType,
		md5: meta.Md5Hash, metadata: meta.Metadata, created: meta.TimeCreated}
}

// vSameState builds one term: the two snapshots are identical.
func vSameState(a, b vObjState) bool {
	if a.exists != b.exists || len(a.content) != len(b.content) || len(a.metadata) != len(b.metadata) {
		return false
	}
	if !a.exists {
		return true
	}
	if a.ctype != b.ctype || a.md5 != b.md5 || a.created != b.created {
		return false
	}
	for k, v := range a.metadata {
		if b.metadata[k] != v {
			return false
		}
	}
	return vAnd(vAnd(a.gen == b.gen, a.metagen == b.metagen), vBytesEq(a.content, b.content))
}

// vPut uploads an object through the real finishUpload (no preconditions).
func vPut(g *GcsEmu, bucket, name string, content []byte) *storage.Object {
	meta, err := g.finishUpload(vCtx(), dontNeedUrls, &storage.Object{Bucket: bucket, Name: name}, content, bucket, emptyConds)
	if err != nil || meta == nil {
		vFatal("setup upload failed")
	}
	return meta
}
