package gcsemu

// C20 (GCS part) — no request or request mix can crash or wedge the service.

import (
	"bytes"
	"compress/gzip"
	"io"
	"net/http"
	"net/url"

	"google.golang.org/api/storage/v1"
)

type vGzipErr struct{}

func (vGzipErr) Error() string { return "gzip: invalid header" }

// stubGzipNewReader: a request body marked gz is a well-formed gzip stream of its raw bytes and
// yields a reader that produces them; stored data that does not start with the gzip magic is
// rejected, as compress/gzip does; other well-formed gzip streams are outside the bound (path ends).
var vGzBody map[*gzip.Reader]*vBody

func stubGzipNewReader(r io.Reader) (*gzip.Reader, error) {
	if b, ok := r.(*vBody); ok {
		if !b.gz {
			return nil, vGzipErr{}
		}
		zr := new(gzip.Reader)
		vJSONMu.Lock()
		if vGzBody == nil {
			vGzBody = map[*gzip.Reader]*vBody{}
		}
		vGzBody[zr] = &vBody{raw: b.raw, decode: b.decode}
		vJSONMu.Unlock()
		return zr, nil
	}
	if b, ok := r.(*bytes.Buffer); ok {
		d := b.Bytes()
		if len(d) < 2 {
			return nil, vGzipErr{}
		}
		if vOr(d[0] != 0x1f, d[1] != 0x8b) {
			return nil, vGzipErr{}
		}
	}
	vAssume(false)
	return nil, nil
}

func c20Check(w *vRecorder, panicked bool, tag string) {
	vAssert(!panicked, tag+":handler-does-not-panic")
	if panicked {
		return
	}
	vAssert(w.code != 0, tag+":a-status-is-written")
	if w.code >= 400 {
		vAssert(w.errorBody() || w.writes > 0, tag+":error-has-a-body")
	}
}

func H_C20_gcs_inputs() {
	g := vNewEmu()
	vPut(g, "b", "keep", []byte("kept"))
	w := vNewRecorder()
	panicked := false
	switch vChoice("case", 0, 6) {
	case 0: // rewrite with an arbitrary destination part
		n := vChoice("path.len", 0, vBound("copy-path-len", 4, 5))
		x := vNondetBytes("path", n)
		for _, b := range x {
			vAssume(vOr(vOr(b == 'a', b == '/'), vOr(b == 'o', b == 'b')))
		}
		panicked = c15Call(func() { g.handleGcsCopy(vCtx(), dontNeedUrls, w, "b", "keep/rewriteTo/b/"+string(x)) })
		c20Check(w, panicked, "copy")
	case 1: // resumable chunk: unknown id, missing / malformed Content-Range, length mismatch
		start := &http.Request{Form: url.Values{"uploadType": []string{"resumable"}}, Header: http.Header{}, Body: &vBody{decode: func(v interface{}) error {
			v.(*storage.Object).Name = "up"
			return nil
		}}}
		g.handleGcsNewObject(vCtx(), dontNeedUrls, vNewRecorder(), start, "b", emptyConds)
		id := []string{"1", "999", ""}[vChoice("upload.id", 0, 2)]
		hdr := http.Header{}
		switch vChoice("content-range", 0, 4) {
		case 1:
			hdr.Set("Content-Range", "bytes 0-1/2")
		case 2:
			hdr.Set("Content-Range", "garbage")
		case 3:
			hdr.Set("Content-Range", "bytes */*")
		case 4:
			hdr.Set("Content-Range", "bytes 5-9/*")
		}
		body := vNondetBytes("chunk", vChoice("chunk.len", 0, 3))
		panicked = c15Call(func() {
			g.handleGcsNewObjectResume(vCtx(), dontNeedUrls, w, &http.Request{Header: hdr, Body: &vBody{raw: body}}, id)
		})
		c20Check(w, panicked, "resume")
	case 2: // download of an object stored as gzip whose bytes are not gzip
		content := vNondetBytes("content", vChoice("content.len", 0, 2))
		_, err := g.finishUpload(vCtx(), dontNeedUrls, &storage.Object{Bucket: "b", Name: "z", ContentEncoding: "gzip"}, content, "b", emptyConds)
		if err != nil {
			vFatal("setup")
		}
		accept := []string{"", "gzip", "br"}[vChoice("accept-encoding", 0, 2)]
		panicked = c15Call(func() { g.handleGcsMediaRequest(dontNeedUrls, w, accept, "b", "z") })
		c20Check(w, panicked, "gzip-download")
	case 3: // new object: unknown upload type, missing name, unparsable JSON
		form := url.Values{}
		var body *vBody
		switch vChoice("newobject", 0, 3) {
		case 0:
			form.Set("uploadType", "bogus")
			body = &vBody{}
		case 1:
			form.Set("uploadType", "media")
			body = &vBody{raw: []byte("x")}
		case 2:
			form.Set("uploadType", "resumable")
			body = &vBody{} // decode fails
		case 3:
			body = &vBody{}
		}
		panicked = c15Call(func() {
			g.handleGcsNewObject(vCtx(), dontNeedUrls, w, &http.Request{Form: form, Header: http.Header{}, Body: body}, "b", emptyConds)
		})
		c20Check(w, panicked, "newobject")
	case 4: // new bucket with an unparsable body
		panicked = c15Call(func() { g.handleGcsNewBucket(vCtx(), w, &http.Request{Body: &vBody{}}, emptyConds) })
		c20Check(w, panicked, "newbucket")
	case 5: // the top-level handler on odd URLs and methods
		paths := []string{"/", "/storage/v1/b", "/storage/v1/b/b/o/keep", "/storage/v1/b/nosuch/o/x", "/b/keep", "/x", "/storage/v1/b/b/o"}
		methods := []string{"GET", "PUT", "PATCH", "DELETE", "POST", "OPTIONS"}
		queries := []string{"", "alt=bogus", "ifGenerationMatch=zz", "upload_id=77", "maxResults=-1"}
		r := &http.Request{Method: methods[vChoice("method", 0, 5)], URL: &url.URL{Path: paths[vChoice("path", 0, 6)], RawQuery: queries[vChoice("query", 0, 4)]},
			Header: http.Header{}, Host: "h", Body: &vBody{}}
		panicked = c15Call(func() { g.Handler(w, r) })
		c20Check(w, panicked, "handler")
	case 6: // compose with arbitrary sub-messages absent
		r := &http.Request{Body: &vBody{decode: func(v interface{}) error {
			req := v.(*storage.ComposeRequest)
			switch vChoice("compose.shape", 0, 2) {
			case 1:
				req.Destination = &storage.Object{}
			case 2:
				req.Destination = &storage.Object{}
				req.SourceObjects = []*storage.ComposeRequestSourceObjects{{Name: "keep"}, {Name: "keep", ObjectPreconditions: &storage.ComposeRequestSourceObjectsObjectPreconditions{}}}
			}
			return nil
		}}}
		obj := []string{"d/compose", "d", "d/compose/compose"}[vChoice("compose.path", 0, 2)]
		panicked = c15Call(func() { g.handleGcsCompose(vCtx(), dontNeedUrls, w, r, "b", obj, emptyConds) })
		c20Check(w, panicked, "compose")
	}
	// the service still serves previously stored data (unless the request was a successful delete)
	if w.code == http.StatusNoContent {
		return
	}
	d := vNewRecorder()
	g.handleGcsMediaRequest(dontNeedUrls, d, "", "b", "keep")
	vAssert(d.code == http.StatusOK && string(d.raw) == "kept", "stored-data-still-served")
	vReach("c20-gcs-inputs")
}

// H_C20_gcs_pairs: pairs of requests on one bucket, all interleavings, race detector on.
func H_C20_gcs_pairs() {
	g := vNewEmu()
	vPut(g, "b", "x", []byte("1"))
	start := &http.Request{Form: url.Values{"uploadType": []string{"resumable"}}, Header: http.Header{}, Body: &vBody{decode: func(v interface{}) error {
		v.(*storage.Object).Name = "up"
		return nil
	}}}
	g.handleGcsNewObject(vCtx(), dontNeedUrls, vNewRecorder(), start, "b", emptyConds)
	chunk := func(rng string, data string) func() {
		return func() {
			h := http.Header{}
			h.Set("Content-Range", rng)
			g.handleGcsNewObjectResume(vCtx(), dontNeedUrls, vNewRecorder(), &http.Request{Header: h, Body: &vBody{raw: []byte(data)}}, "1")
		}
	}
	ops := []func(){
		func() { g.InitBucket("c") }, // 0 create another bucket
		func() { g.handleGcsDelete(vCtx(), vNewRecorder(), "b", "", emptyConds) },                 // 1 delete the bucket
		func() { g.handleGcsListBucket(vCtx(), dontNeedUrls, vNewRecorder(), url.Values{}, "b") }, // 2 list
		func() {
			g.finishUpload(vCtx(), dontNeedUrls, &storage.Object{Bucket: "b", Name: "y"}, []byte("2"), "b", emptyConds)
		}, // 3 upload
		func() { g.handleGcsDelete(vCtx(), vNewRecorder(), "b", "x", emptyConds) },     // 4 delete object
		func() { g.handleGcsMetadataRequest(dontNeedUrls, vNewRecorder(), "b", "") },   // 5 bucket metadata
		func() { g.handleGcsMediaRequest(dontNeedUrls, vNewRecorder(), "", "b", "x") }, // 6 download
		chunk("bytes 0-1/*", "ab"), // 7 first chunk of the resumable upload
		chunk("bytes 0-1/2", "ab"), // 8 the same range again, finishing
	}
	a := vChoice("op.a", 0, len(ops)-1)
	b := vChoice("op.b", a, len(ops)-1)
	vGo(ops[a])
	vGo(ops[b])
	vJoin()
	vReach("c20-gcs-pairs")
}

// H_C20_multipart: multipart/related uploads with too few parts, a missing or foreign boundary, or
// an undecodable metadata document: answered with an error status, never a panic.
func H_C20_multipart() {
	g := vNewEmu()
	vPut(g, "b", "keep", []byte("kept"))
	var parts []vPartData
	n := vChoice("parts", 0, 3)
	for i := 0; i < n; i++ {
		if i == 0 && vChoice("metadata.decodable", 0, 1) == 1 {
			parts = append(parts, vPartData{decode: func(v interface{}) error {
				v.(*storage.Object).Name = "up"
				return nil
			}})
		} else {
			parts = append(parts, vPartData{raw: vNondetBytes("part", 1)})
		}
	}
	if parts == nil {
		parts = []vPartData{}
	}
	ct := []string{"multipart/related; boundary=" + vBoundary, "multipart/related", "multipart/related; boundary=other", "text/plain", ""}[vChoice("content-type", 0, 4)]
	hdr := http.Header{}
	if ct != "" {
		hdr.Set("Content-Type", ct)
	}
	w := vNewRecorder()
	req := &http.Request{Form: url.Values{"uploadType": []string{"multipart"}}, Header: hdr, Body: &vBody{parts: parts}}
	panicked := c15Call(func() { g.handleGcsNewObject(vCtx(), dontNeedUrls, w, req, "b", emptyConds) })
	c20Check(w, panicked, "multipart")
	if !panicked && (n < 2 || ct != "multipart/related; boundary="+vBoundary) {
		vAssert(w.code >= 400, "multipart:incomplete-upload-is-an-error")
	}
	st := vSnap(g, "b", "keep")
	vAssert(st.exists && string(st.content) == "kept", "multipart:stored-data-still-served")
	vReach("c20-multipart")
}

// H_C20_batch: a batch request of 1..2 parts, each with an arbitrary part content type and an
// embedded request whose declared Content-Length is ANY int64 and whose body has 0..2 bytes: the
// handler never panics, always answers, and a 200 carries exactly one sub-response per part.
func H_C20_batch() {
	g := vNewEmu()
	vPut(g, "b", "keep", []byte("kept"))
	n := vChoice("parts", 1, 2)
	var parts []vPartData
	for i := 0; i < n; i++ {
		ct := []string{"application/http", "text/plain", ""}[vChoice("part.content-type", 0, 2)]
		e := &vEmbedded{contentLength: vNondetInt64("embedded.content-length")}
		switch vChoice("embedded", 0, 4) {
		case 0:
			e.method, e.path = "GET", "/storage/v1/b/b/o/keep"
		case 1:
			e.method, e.path, e.query = "GET", "/storage/v1/b/b/o/keep", "alt=media"
		case 2:
			e.method, e.path = "DELETE", "/storage/v1/b/b/o/nosuch"
		case 3:
			e.method, e.path, e.query = "POST", "/upload/storage/v1/b/b/o", "uploadType=media&name=up"
		case 4:
			e.malformed = true
		}
		body := vNondetBytes("embedded.body", vChoice("embedded.body.len", 0, 2))
		hdr := map[string]string{"Content-ID": "<id+1>"}
		if ct != "" {
			hdr["Content-Type"] = ct
		}
		parts = append(parts, vPartData{hdr: hdr, raw: vEmbedBytes(e, body)})
	}
	w := vNewRecorder()
	vLastBatchOut = nil
	req := &http.Request{Method: "POST", URL: &url.URL{Path: "/batch/storage/v1"}, Host: "h",
		Header: http.Header{"Content-Type": []string{"multipart/mixed; boundary=" + vBoundary}}, Body: &vBody{parts: parts}}
	panicked := c15Call(func() { g.BatchHandler(w, req) })
	vAssert(!panicked, "batch:handler-does-not-panic")
	if panicked {
		return
	}
	vAssert(w.code != 0, "batch:a-status-is-written")
	if w.code == http.StatusOK {
		vAssert(vLastBatchOut != nil && vLastBatchOut.parts == n && vLastBatchOut.closed, "batch:one-sub-response-per-part")
		vReach("c20-batch-ok")
	} else {
		vAssert(w.code >= 400 && (w.errorBody() || w.writes > 0), "batch:error-has-a-body")
		vReach("c20-batch-rejected")
	}
	st := vSnap(g, "b", "keep")
	vAssert(st.exists && string(st.content) == "kept", "batch:stored-data-still-served")
}

func init() {
	vHarnesses["H_C20_batch"] = H_C20_batch
	vHarnesses["H_C20_multipart"] = H_C20_multipart
	vHarnesses["H_C20_gcs_inputs"] = H_C20_gcs_inputs
	vHarnesses["H_C20_gcs_pairs"] = H_C20_gcs_pairs
}
