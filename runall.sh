#!/bin/sh
# run every quick check once; print one line per property
cd /verif
for p in C01 C02 C03 C04 C05 C06 C07 C08 C09 C10 C11 C12 C13 C14 C15 C16 C17 C18 C19 C20; do
  s=$(date +%s)
  out=$(./check $p ${1:-quick} 2>/dev/null)
  rc=$?
  e=$(date +%s)
  echo "$p rc=$rc $((e-s))s $(echo "$out" | grep -c KNOWN-FINDING) known | $(echo "$out" | tail -1 | cut -c1-150)"
done
